#!/usr/bin/env python3
"""Verify a seeded breaking change and run the checks against it.

usage: seedcheck.py <property> <dir with patch.diff, demo.py[, notes.md]> [--runs-scale X] [--props C06,C10]
 1. in a throw-away worktree of /repo: the patch applies, the pinned suite still passes, the demo fails
    with the patch and passes without it;
 2. the patch is applied to /repo itself (git apply), the quick checks are run, and it is undone
    straight afterwards (git checkout -- .).
Writes <dir>/meta.json.
"""
import json, os, re, shutil, subprocess, sys, tempfile, time

def sh(cmd, cwd=None, timeout=1800, env=None):
    p = subprocess.run(cmd, shell=True, cwd=cwd, capture_output=True, text=True, timeout=timeout, env=env)
    return p.returncode, p.stdout + p.stderr

def main():
    prop, d = sys.argv[1], os.path.abspath(sys.argv[2])
    props = [prop]
    for a in sys.argv[3:]:
        if a.startswith("--props="):
            props = a.split("=")[1].split(",")
    patch = os.path.join(d, "patch.diff")
    demo = os.path.join(d, "demo.py")
    meta = {"property": prop, "checks_run": {}, "verified": {}}
    wt = tempfile.mkdtemp(prefix="seedverify_")
    os.rmdir(wt)
    rc, out = sh(f"git -C /repo worktree add -q --detach {wt} HEAD")
    assert rc == 0, out
    try:
        os.makedirs(os.path.join(wt, "_out", "x"))
        shutil.copy(demo, os.path.join(wt, "_out", "x", "demo.py"))
        rc, out = sh("/venv/bin/python _out/x/demo.py", cwd=wt)
        meta["verified"]["demo_without_change_exit"] = rc
        rc, out = sh(f"git apply {patch}", cwd=wt)
        meta["verified"]["patch_applies"] = rc == 0
        if rc != 0:
            print("patch does not apply:", out)
        rc, out = sh("/venv/bin/python -m pytest -q -p no:cacheprovider --timeout=900 tests", cwd=wt)
        m = re.search(r"(\d+) passed", out); f = re.search(r"(\d+) failed", out)
        meta["verified"]["suite_with_change"] = {"passed": int(m.group(1)) if m else 0, "failed": int(f.group(1)) if f else 0}
        rc, out = sh("/venv/bin/python _out/x/demo.py", cwd=wt)
        meta["verified"]["demo_with_change_exit"] = rc
        meta["verified"]["demo_with_change_tail"] = out.strip().splitlines()[-3:]
    finally:
        sh(f"git -C /repo worktree remove --force {wt}")
    ok = (meta["verified"].get("patch_applies") and meta["verified"]["demo_without_change_exit"] == 0
          and meta["verified"]["demo_with_change_exit"] != 0 and meta["verified"]["suite_with_change"]["failed"] == 0
          and meta["verified"]["suite_with_change"]["passed"] >= 140)
    meta["verified"]["all_confirmed"] = bool(ok)
    scratch = "--scratch" in sys.argv
    env = None
    if scratch:
        # same checks against a scratch copy (used while a background run is reading /repo)
        sdir = tempfile.mkdtemp(prefix="seedscratch_")
        shutil.copytree("/repo/npstructures", os.path.join(sdir, "npstructures"))
        rc, out = sh(f"patch -p1 -s -d {sdir} < {patch}")
        assert rc == 0, out
        env = dict(os.environ, DSIM_REPO=sdir)
        meta["applied_to"] = "scratch copy via DSIM_REPO"
    else:
        # run the checks against /repo with the change applied
        rc, out = sh("git -C /repo status --porcelain")
        assert out.strip() == "", "repo not clean: " + out
        rc, out = sh(f"git -C /repo apply {patch}")
        assert rc == 0, out
        meta["applied_to"] = "/repo (git apply, undone afterwards)"
    try:
        for p in props:
            t0 = time.time()
            rc, out = sh(f"timeout 900 /venv/bin/python -m dsim check {p} --tier quick --no-evidence", cwd="/verif", env=env)
            viol = [l for l in out.splitlines() if l.startswith("VIOLATION")]
            meta["checks_run"][p] = {"cmd": f"/venv/bin/python -m dsim check {p} --tier quick", "exit": rc,
                                     "violation_lines": len(viol), "wall_s": round(time.time() - t0, 1),
                                     "first_report": out.splitlines()[:14] if viol else out.splitlines()[-2:]}
            print(p, "exit", rc, len(viol), "violation lines")
    finally:
        if scratch:
            shutil.rmtree(sdir, ignore_errors=True)
        else:
            sh("git -C /repo checkout -- .")
    rc, out = sh("git -C /repo status --porcelain")
    assert out.strip() == "", out
    meta["caught_by"] = [p for p, r in meta["checks_run"].items() if r["exit"] == 1]
    old = {}
    mp = os.path.join(d, "meta.json")
    if os.path.exists(mp):
        old = json.load(open(mp))
    old.update(meta)
    json.dump(old, open(mp, "w"), indent=1)
    print(json.dumps(meta["verified"]), "caught_by", meta["caught_by"])

main()
