#!/usr/bin/env python3
"""False-alarm test: apply a behaviour-preserving patch to a scratch copy of /repo/npstructures and require
every check to stay silent (exit 0).  usage: benigncheck.py <patch.diff> [--props C06,C10,...] [--runs-scale]"""
import os, re, shutil, subprocess, sys, tempfile, json

def main():
    patch = os.path.abspath(sys.argv[1])
    props = ["C06", "C10", "C19", "C11", "C12"]
    for a in sys.argv[2:]:
        if a.startswith("--props="):
            props = a.split("=")[1].split(",")
    sdir = tempfile.mkdtemp(prefix="benign_")
    try:
        subprocess.run(f"git -C /repo archive HEAD | tar -x -C {sdir}", shell=True, check=True)
        p = subprocess.run(f"patch -p1 -s -d {sdir} < {patch}", shell=True, capture_output=True, text=True)
        if p.returncode != 0:
            print("PATCH-FAILED", p.stdout[-300:]); return 2
        t = subprocess.run([sys.executable, "-m", "pytest", "-q", "-p", "no:cacheprovider", "--timeout=900", "tests"],
                           cwd=sdir, capture_output=True, text=True)
        m = re.search(r"(\d+) passed", t.stdout); f = re.search(r"(\d+) failed", t.stdout)
        print("suite:", m.group(1) if m else 0, "passed,", f.group(1) if f else 0, "failed")
        env = dict(os.environ, DSIM_REPO=sdir)
        res = {}
        for pr in props:
            r = subprocess.run([sys.executable, "-m", "dsim", "check", pr, "--tier", "quick", "--no-evidence"],
                               cwd="/verif", env=env, capture_output=True, text=True, timeout=1800)
            res[pr] = r.returncode
            if r.returncode != 0:
                print(f"--- {pr} exit {r.returncode}")
                print("\n".join((r.stdout + r.stderr).splitlines()[:25]))
        print("RESULT", json.dumps(res), "SILENT" if all(v == 0 for v in res.values()) else "ALARM")
        return 0 if all(v == 0 for v in res.values()) else 1
    finally:
        shutil.rmtree(sdir, ignore_errors=True)

sys.exit(main())
