"""Generation of HashTable / Counter histories.  Generation needs no system under test: key sets,
values and expected state all come from the PRNG and from the harness-side dict models, so the
generated history is frozen before the library sees it."""
import numpy as np

KEY_DTYPES = ["int8", "int16", "int32", "int64", "uint8", "uint16", "uint32", "uint64"]


def set_query_container(rng, op, qs, dt, field="q_dtype"):
    """Choose how a vector of integers reaches the library: a Python list, or an array of ANY integer dtype that
    can hold all its values (the key dtype, numpy's default int64, same width with the other signedness,
    narrower, wider, ...)."""
    n = len(qs)
    fits64 = all(-2 ** 63 <= x < 2 ** 63 for x in qs)
    cands = [d for d in KEY_DTYPES
             if all(int(np.iinfo(d).min) <= x <= int(np.iinfo(d).max) for x in qs)]
    r = rng.random()
    if r < 0.25 and fits64:
        op["as_list"] = True                  # (also an empty Python list)
    elif r < 0.5 and dt in cands:
        op[field] = dt
    elif r < 0.75 and "int64" in cands:
        pass                                   # numpy's default integer
    elif cands:
        op[field] = rng.choice(cands)
    elif fits64:
        op["as_list"] = True


def _primes():
    return [2, 3, 5, 7, 11, 13, 17, 31, 61, 127]


def gen_keys(rng, P):
    """-> (keys list of python ints, key dtype name, magnitude class)"""
    dt = rng.choice(P["key_dtypes"])
    info = np.iinfo(dt)
    n = rng.randint(1, 40) if rng.random() < 0.8 else rng.randint(1, 6)
    if rng.random() < 0.01 and dt not in ("int8", "uint8"):
        n = rng.randint(257, 320)                      # more keys than 8 bits count
    n = min(n, int(info.max) - int(info.min) + 1)      # (as many distinct keys as the dtype has values, at most)
    if rng.random() < 0.05 and dt in ("int8", "uint8"):
        n = rng.randint(65, 120)                       # default modulus 2n-1 then exceeds the key dtype's range
    mag = rng.choice(["small", "small", "neg", "limits", "huge", "mixed"])
    lo, hi = int(info.min), int(info.max)
    cap = 2 ** 62
    lo, hi = max(lo, -cap), min(hi, cap)

    def draw():
        m = mag if mag != "mixed" else rng.choice(["small", "neg", "limits", "huge"])
        if m == "small":
            return rng.randint(max(lo, 0), min(hi, max(120, 4 * n)))
        if m == "neg":
            return rng.randint(max(lo, -max(120, 4 * n)), min(hi, 20))
        if m == "limits":
            return rng.choice([lo + rng.randint(0, 5), hi - rng.randint(0, 5)])
        return rng.randint(lo, hi)
    keys = []
    seen = set()
    guard = 0
    while len(keys) < n and guard < 10 * n + 50:
        guard += 1
        k = draw()
        if k not in seen:
            seen.add(k)
            keys.append(k)
    return keys, dt, mag


def gen_mod(rng, keys, dt):
    """Explicit modulus choices (None = library default 2n-1)."""
    n = len(keys)
    hi = int(np.iinfo(dt).max)
    kind = rng.choice(["default", "default", "one", "two", "n", "prime", "large", "collide", "sparse"])
    if kind == "default":
        return None, kind
    if kind == "one":
        return 1, kind
    if kind == "two":
        return 2, kind
    if kind == "n":
        return max(1, n), kind
    if kind == "prime":
        return rng.choice(_primes()), kind
    if kind == "large":
        return rng.choice([257, 1009, 4099]), kind          # may exceed the key dtype's range
    if kind == "sparse":
        return 8 * n + 3, kind
    # all keys collide: any modulus dividing every pairwise difference; 1 always works, try larger
    import math
    g = 0
    for k in keys[1:]:
        g = math.gcd(g, abs(k - keys[0]))
    # (the library allocates one bucket per residue, so the modulus also bounds memory)
    for cand in (g, 64, 16, 8, 4, 2):
        if 1 < cand <= 4096 and g % cand == 0:
            return cand, "collide"
    return 1, "collide1"


def vkind_values(rng, vkind, n):
    if vkind == "bool":
        return [rng.random() < 0.5 for _ in range(n)]
    if vkind == "float":
        return [rng.randint(-40, 80) / 4.0 for _ in range(n)]
    if vkind in ("uint", "safeint"):
        return [rng.randint(0, 100) for _ in range(n)]
    return [rng.randint(-100, 100) for _ in range(n)]


VDT = {"safeint": ["int64", "int32", "uint16"], "int": ["int64", "int32", "int16"], "uint": ["uint16", "uint32", "uint64"], "float": ["float64", "float32"],
       "bool": ["bool"]}


def swarm(rng):
    ops = ["get", "getv", "set", "setv", "fill", "contains", "derive", "add", "eq", "items", "repr", "new", "count"]
    en = [o for o in ops if rng.random() < 0.75]
    for must in ("getv",):
        if must not in en:
            en.append(must)
    return {
        "key_dtypes": rng.sample(KEY_DTYPES, rng.choice([1, 2, len(KEY_DTYPES)])),
        "ops": en,
        "weights": {o: rng.choice([1, 2, 3]) for o in en},
        "n_ops": rng.randint(5, 40),
        "absent_rate": rng.choice([0.0, 0.05, 0.15, 0.3]),
        "wide_rate": rng.choice([0.0, 0.15, 0.4]),
        "faults": rng.random() < 0.6,      # refused operations in mid-history enabled?
    }


class Hist:
    """Builds a C11 history; keeps the dict models to choose present / absent keys."""

    def __init__(self, rng, P=None, counters=False):
        self.rng = rng
        self.P = P or swarm(rng)
        self.ops = []
        self.m = {}
        self.info = {}     # handle -> {cls, dt, vkind, family, mod}
        self.n = 0
        self.sig = []

    def fresh(self):
        h = f"h{self.n}"
        self.n += 1
        return h

    def new(self, cls=None):
        rng = self.rng
        keys, dt, mag = gen_keys(rng, self.P)
        mod, mkind = gen_mod(rng, keys, dt)
        cls = cls or rng.choice(["HashTable", "HashTable", "HashTable", "HashSet", "Counter"])
        h = self.fresh()
        op = {"op": "new", "cls": cls, "dst": h, "keys": keys, "key_dtype": dt, "mod": mod}
        if rng.random() < 0.2:
            op["keys_as_list"] = True          # Python-list keys + key_dtype= keyword
        if mod is not None and rng.random() < 0.25:
            op["mod_np"] = True                # the modulus as a numpy integer
        if cls == "HashSet":
            vkind = "int"
            model = {k: 0 for k in keys}
        else:
            r = rng.random()
            if cls == "Counter":
                vkind = "int"
                if r < 0.4:
                    op["values"] = ["scalar", 0]
                    op["default_init"] = rng.random() < 0.5
                elif r < 0.6:
                    op["values"] = ["scalar", rng.randint(1, 50)]
                else:
                    op["values"] = ["arr", "int64", [rng.randint(0, 50) for _ in keys]]
            else:
                if r < 0.35:
                    # scalar-valued table: the lazy state (values stay a Python scalar until the first write)
                    vkind = "uint" if dt.startswith("uint") else "int"
                    op["values"] = ["scalar", rng.randint(0, 100)]
                    if rng.random() < 0.4:
                        vkind = rng.choice(["int", "float"])
                        op["value_dtype"] = rng.choice(VDT[vkind])
                        if vkind == "float":
                            op["values"] = ["scalar", rng.randint(-40, 80) / 4.0]
                else:
                    vkind = rng.choice(["int", "int", "uint", "float", "bool"])
                    op["values"] = ["arr", rng.choice(VDT[vkind]), vkind_values(rng, vkind, len(keys))]
                    if rng.random() < 0.2 and vkind in ("int", "float"):
                        op["values"][1] = "int64" if vkind == "int" else "float64"
                        op["values_as_list"] = True        # a plain Python list of values
            v = op["values"]
            model = {k: (v[1] if v[0] == "scalar" else v[2][j]) for j, k in enumerate(keys)}
        prev = [x for x in self.info if self.info[x].get("arr_inputs") and self.info[x]["family"] == x]
        if prev and cls != "HashSet" and rng.random() < 0.25:
            # build this table from the very same key / value array objects as an earlier one
            src = rng.choice(prev)
            so = self.info[src]["arr_inputs"]
            op["keys"], op["key_dtype"], op["values"] = list(so["keys"]), so["key_dtype"], so["values"]
            op.pop("keys_as_list", None)
            op.pop("value_dtype", None)
            op["same_inputs_as"] = src
            keys, dt = op["keys"], op["key_dtype"]
            mod, mkind = gen_mod(rng, keys, dt)
            op["mod"] = mod
            if cls == "Counter" and not so["values"][1].startswith(("int", "uint")):
                op["cls"] = cls = "HashTable"
            vkind = so["vkind"]
            model = {k: so["values"][2][j] for j, k in enumerate(keys)}
        self.ops.append(op)
        self.m[h] = model
        self.info[h] = {"cls": cls, "dt": dt, "vkind": vkind, "family": h, "mod": mkind, "mag": mag,
                        "arr_inputs": ({"keys": keys, "key_dtype": dt, "values": op["values"], "vkind": vkind}
                                       if cls != "HashSet" and op.get("values", [""])[0] == "arr"
                                       and not op.get("keys_as_list") else None),
                        "scalar_state": cls == "HashSet" or op["values"][0] == "scalar",
                        "no_value_dtype": cls == "HashTable" and op.get("values", [""])[0] == "scalar"
                        and not op.get("value_dtype")}
        self.sig.append(f"new:{cls}:{dt}:{mkind}:{mag}:{op.get('values', ['set'])[0]}")
        return h

    # -- key choice --------------------------------------------------------------------------
    def absent_key(self, h):
        """A value of the key dtype that is not a key; biased to collide with a non-empty bucket."""
        rng = self.rng
        model = self.m[h]
        info = np.iinfo(self.info[h]["dt"])
        keys = list(model)
        dt = self.info[h]["dt"]
        if dt == "uint64" and rng.random() < self.P.get("wide_rate", 0.0):
            return -rng.choice([1, 2, rng.randint(1, 2 ** 62)])      # no unsigned dtype can hold it
        if dt not in ("int64", "uint64") and keys and rng.random() < self.P.get("wide_rate", 0.0):
            # a value the key dtype cannot represent, biased to be congruent to a key modulo 2**bits (a cast of
            # the query to the key dtype would wrap it onto that key)
            span = int(info.max) - int(info.min) + 1
            c = rng.choice(keys) + span * rng.choice([1, -1, 2, -2])
            if rng.random() < 0.3:
                c = rng.choice([int(info.max) + rng.randint(1, 300), int(info.min) - rng.randint(1, 300)])
            if not (int(info.min) <= c <= int(info.max)):
                return c
        for _ in range(30):
            r = rng.random()
            if r < 0.5 and keys:
                k = rng.choice(keys)
                n = len(keys)
                d = rng.choice([1, -1, 2 * n - 1, -(2 * n - 1), n, 7, 17, 2, 4 * n - 2])
                c = k + d
            elif r < 0.7:
                c = rng.choice([int(info.min), int(info.max), 0, -1, 1])
            else:
                c = rng.randint(max(int(info.min), -2 ** 62), min(int(info.max), 2 ** 62))
            if c not in model and int(info.min) <= c <= int(info.max) and abs(c) <= 2 ** 62:
                return c
        return None

    def some_keys(self, h, allow_absent):
        rng = self.rng
        keys = list(self.m[h])
        k = rng.randint(1, 8) if rng.random() < 0.8 else rng.randint(0, 2)
        out = [rng.choice(keys) for _ in range(k)]
        if allow_absent and rng.random() < self.P["absent_rate"]:
            a = self.absent_key(h)
            if a is not None:
                out.insert(rng.randint(0, len(out)), a)
        return out

    def value_for(self, h, n=None):
        rng = self.rng
        vk = self.info[h]["vkind"]
        if n is None or rng.random() < 0.4:
            return ["scalar", vkind_values(rng, vk, 1)[0]]
        if rng.random() < 0.25:
            return ["list", None, vkind_values(rng, vk, n)]      # a plain Python list of per-key values
        return ["arr", rng.choice(VDT[vk]) if vk != "bool" else "bool", vkind_values(rng, vk, n)]

    def qform(self, h, op):
        """Container of a vector query: a Python list, an array of the key dtype, an int64 array (numpy's
        default for integers) or any other integer dtype that holds the values, whatever the key dtype."""
        rng = self.rng
        dt = self.info[h]["dt"]
        qs = op.get("keys", op.get("batch", []))
        set_query_container(rng, op, qs, dt)

    def pick(self, pred=lambda i: True):
        hs = [h for h in self.m if pred(self.info[h])]
        return self.rng.choice(hs) if hs else None

    # -- one operation -------------------------------------------------------------------------
    def step(self):
        rng = self.rng
        kinds = sorted(self.P["weights"])
        k = rng.choices(kinds, [self.P["weights"][x] for x in kinds])[0]
        faults = self.P["faults"]
        if k == "new":
            if len(self.m) < 4:
                self.new()
            return
        if k == "derive":
            h = self.pick(lambda i: i["cls"] != "HashSet")
            if h is None or len(self.m) >= 6:
                return
            d = self.fresh()
            f = rng.choice(["zeros_like", "ones_like"])
            self.ops.append({"op": "derive", "f": f, "src": h, "dst": d})
            self.m[d] = {kk: (0 if f == "zeros_like" else 1) for kk in self.m[h]}
            self.info[d] = dict(self.info[h])
            self.info[d]["scalar_state"] = True
            if self.info[h].get("no_value_dtype") == "uncertain":
                self.info[d]["vkind"] = "safeint"
            elif self.info[h].get("no_value_dtype"):
                self.info[d]["vkind"] = "uint" if self.info[h]["dt"].startswith("uint") else "int"
            self.sig.append("derive:" + f)
            return
        if k == "add":
            a = self.pick(lambda i: i["cls"] != "HashSet" and i["vkind"] != "bool")
            if a is None or len(self.m) >= 6:
                return
            fam = [h for h in self.m if self.info[h]["family"] == self.info[a]["family"]
                   and self.info[h]["vkind"] != "bool" and self.info[h]["cls"] != "HashSet"]
            b = rng.choice(fam)
            d = self.fresh()
            self.ops.append({"op": "add", "a": a, "b": b, "dst": d})
            self.m[d] = {kk: self.m[a][kk] + self.m[b][kk] for kk in self.m[a]}
            self.info[d] = dict(self.info[a])
            self.info[d]["cls"] = "HashTable"
            # scalar_state is True (certainly still a scalar), False (certainly per-key values) or None (unknown: a
            # refused vector assignment may or may not have expanded the values - the property does not say)
            sa, sb = self.info[a].get("scalar_state"), self.info[b].get("scalar_state")
            ua, ub = self.info[a].get("no_value_dtype"), self.info[b].get("no_value_dtype")
            if sa is True and sb is True:
                # scalar + scalar stays a Python scalar and the sum table has no value dtype of its own:
                # its values materialise in the key dtype, so only integers are assigned to it
                self.info[d]["vkind"] = "uint" if self.info[a]["dt"].startswith("uint") else "int"
                self.info[d]["scalar_state"] = True
                self.info[d]["no_value_dtype"] = True
            elif sa is None or sb is None or ua == "uncertain" or ub == "uncertain" \
                    or "safeint" in (self.info[a]["vkind"], self.info[b]["vkind"]):
                # whether the sum has a value dtype of its own depends on the unknown state: from here on only
                # values representable in every candidate dtype (small non-negative integers) are assigned
                self.info[d]["vkind"] = "safeint"
                self.info[d]["scalar_state"] = False if (sa is False or sb is False) else None
                self.info[d]["no_value_dtype"] = "uncertain"
            else:
                ka = self.info[a]["vkind"] if not sa else "int"
                kb = self.info[b]["vkind"] if not sb else "int"
                if "float" in (ka, kb):
                    self.info[d]["vkind"] = "float"
                elif ka == kb == "uint":
                    self.info[d]["vkind"] = "uint"
                else:
                    self.info[d]["vkind"] = "int"
                self.info[d]["scalar_state"] = False
                self.info[d]["no_value_dtype"] = False
            self.sig.append("add")
            return
        if k == "eq":
            a = self.pick()
            fam = [h for h in self.m if self.info[h]["family"] == self.info[a]["family"]]
            self.ops.append({"op": "eq", "a": a, "b": rng.choice(fam)})
            self.sig.append("eq")
            return
        h = self.pick()
        if h is None:
            return
        cls = self.info[h]["cls"]
        if k == "count":
            # counters inside ordinary table histories (a Counter is a HashTable): batches of keys and non-keys
            cs = [x for x in self.m if self.info[x]["cls"] == "Counter"
                  and self.info[x]["vkind"] in ("int", "uint", "safeint")]
            if not cs:
                return
            h = rng.choice(cs)
            keys = list(self.m[h])
            batch = []
            for _ in range(rng.randint(0, 12)):
                if rng.random() < 0.7:
                    batch.append(rng.choice(keys))
                else:
                    a = self.absent_key(h)
                    if a is not None:
                        batch.append(a)
            op = {"op": "count", "h": h, "batch": batch}
            set_query_container(rng, op, batch, self.info[h]["dt"], field="b_dtype")
            self.ops.append(op)
            for x in batch:
                if x in self.m[h]:
                    self.m[h][x] += 1
            if any(x in self.m[h] for x in batch):
                self.info[h]["scalar_state"] = False
            self.sig.append("count")
            return
        if k == "get":
            op = {"op": "get", "h": h, "key": rng.choice(list(self.m[h]))}
            if rng.random() < 0.3:
                fits = [d for d in KEY_DTYPES if int(np.iinfo(d).min) <= op["key"] <= int(np.iinfo(d).max)]
                op["np_key"] = rng.choice(fits) if rng.random() < 0.5 else self.info[h]["dt"]
            self.ops.append(op)
        elif k == "getv":
            keys = self.some_keys(h, faults)
            op = {"op": "getv", "h": h, "keys": keys}
            self.qform(h, op)
            self.ops.append(op)
            if rng.random() < 0.15 and not op.get("as_list"):
                self.ops.append(dict(op, reuse=True))      # the same query array object once more
        elif k == "set":
            if cls == "HashSet":
                return
            self.ops.append({"op": "set", "h": h, "key": rng.choice(list(self.m[h])), "value": self.value_for(h)})
            if rng.random() < 0.3:
                kk = self.ops[-1]["key"]
                fits = [d for d in KEY_DTYPES if int(np.iinfo(d).min) <= kk <= int(np.iinfo(d).max)]
                self.ops[-1]["np_key"] = rng.choice(fits) if rng.random() < 0.5 else self.info[h]["dt"]
            self.m[h][self.ops[-1]["key"]] = self.ops[-1]["value"][1]
            self.info[h]["scalar_state"] = False
        elif k == "setv":
            if cls == "HashSet":
                return
            keys = list(self.m[h])
            sel = rng.sample(keys, rng.randint(1, min(len(keys), 6)))
            absent = False
            if faults and rng.random() < self.P["absent_rate"]:
                a = self.absent_key(h)
                if a is not None:
                    sel.insert(rng.randint(0, len(sel)), a)
                    absent = True
            val = self.value_for(h, len(sel))
            if val[0] == "scalar" and rng.random() < 0.3:
                # one scalar for a key vector with repeats is well defined (per-key values would not be)
                present = [kk for kk in sel if kk in self.m[h]]
                for _ in range(rng.randint(1, 3)):
                    sel.insert(rng.randint(0, len(sel)), rng.choice(present))
                if rng.random() < 0.5 and len(sel) > len(keys) >= 2:
                    # as many entries as the table has keys, but not naming every key
                    drop = rng.choice([kk for kk in keys])
                    sel = [kk for kk in sel if kk != drop][:len(keys)]
                    while len(sel) < len(keys) and any(kk in self.m[h] for kk in sel):
                        sel.append(rng.choice([kk for kk in sel if kk in self.m[h]]))
                    if not sel:
                        sel = [keys[0]]
            op = {"op": "setv", "h": h, "keys": sel, "value": val}
            self.qform(h, op)
            self.ops.append(op)
            if absent and self.info[h].get("scalar_state") is not False:
                self.info[h]["scalar_state"] = None    # a refused assignment may or may not have expanded the values
            else:
                self.info[h]["scalar_state"] = False
            if not absent:
                for j, kk in enumerate(sel):
                    self.m[h][kk] = val[1] if val[0] == "scalar" else val[2][j]
        elif k == "fill":
            if cls == "HashSet":
                return
            v = vkind_values(rng, self.info[h]["vkind"], 1)[0]
            self.ops.append({"op": "fill", "h": h, "value": v})
            for kk in self.m[h]:
                self.m[h][kk] = v
        elif k == "contains":
            model = self.m[h]
            q = []
            for _ in range(rng.randint(1, 8)):
                if rng.random() < 0.5:
                    q.append(rng.choice(list(model)))
                else:
                    a = self.absent_key(h)
                    q.append(a if a is not None else rng.choice(list(model)))
            op = {"op": "contains", "h": h, "keys": q}
            if cls == "HashSet" and rng.random() < 0.4:
                op["scalar"] = True
                op["keys"] = q[:1]
            else:
                self.qform(h, op)
            self.ops.append(op)
            if rng.random() < 0.15 and not op.get("as_list") and not op.get("scalar"):
                self.ops.append(dict(op, reuse=True))
        elif k == "items":
            self.ops.append({"op": "items", "h": h, "f": rng.choice(["items", "to_dict"])})
        elif k == "repr":
            self.ops.append({"op": "repr", "h": h})
        self.sig.append(k)

    def generate(self):
        self.new()
        guard = 0
        while len(self.ops) < self.P["n_ops"] and guard < 200:
            guard += 1
            self.step()
        return self.ops

    def signature(self):
        return "|".join(self.sig)


def gen_c11(rng):
    g = Hist(rng)
    ops = g.generate()
    return ops, g


# ---------------------------------------------------------------------------------------------
# C12: one sample stream, several delivery schedules


def gen_stream(rng):
    """-> dict(keys, key_dtype, init, stream, mods, wide) describing one Counter workload."""
    P = {"key_dtypes": rng.sample(KEY_DTYPES, rng.choice([1, len(KEY_DTYPES)]))}
    keys, dt, mag = gen_keys(rng, P)
    info = np.iinfo(dt)
    r = rng.random()
    if r < 0.4:
        init = ["scalar", 0]
    elif r < 0.6:
        init = ["scalar", rng.randint(1, 50)]
    else:
        init = ["arr", rng.choice(["int64", "int64", "int32", "int16", "uint64", "uint32", "uint16"]),
                [rng.randint(0, 50) for _ in keys]]
    value_dtype = rng.choice(["int64", "int32", "uint64", "uint32"]) if init[0] == "scalar" and rng.random() < 0.25 \
        else None
    n = rng.choice([0, 1, 3, 10, 40, 120, 300]) if rng.random() < 0.5 else rng.randint(0, 60)
    h = Hist(rng, {"key_dtypes": [dt], "absent_rate": 0, "weights": {}, "ops": [], "n_ops": 0, "faults": False})
    h.m["h0"] = {k: 0 for k in keys}
    h.info["h0"] = {"dt": dt}
    hot = [rng.choice(keys) for _ in range(rng.randint(1, 3))]
    noise_rate = rng.choice([0.0, 0.1, 0.3, 0.7, 1.0])
    stream = []
    wide_rate = rng.choice([0.0, 0.0, 0.2, 0.6]) if dt != "int64" else 0.0
    lo, hi = int(info.min), int(info.max)
    for _ in range(n):
        if rng.random() < noise_rate:
            if rng.random() < wide_rate:
                # a sample the key dtype cannot represent (biased to wrap onto a key under a cast)
                k = rng.choice(keys)
                span = hi - lo + 1
                c = k + span * rng.choice([1, -1, 2]) if span < 2 ** 63 else -rng.randint(1, 2 ** 62)
                if rng.random() < 0.3:
                    c = rng.choice([hi + 1, lo - 1, hi + rng.randint(1, 1000), lo - rng.randint(1, 1000)])
                if -2 ** 63 <= c < 2 ** 63 and not (lo <= c <= hi):
                    stream.append(c)
                    continue
            a = h.absent_key("h0")
            stream.append(a if a is not None else rng.choice(keys))
        elif rng.random() < 0.5:
            stream.append(rng.choice(hot))
        else:
            stream.append(rng.choice(keys))
    mods = []
    for _ in range(3):
        m, kind = gen_mod(rng, keys, dt)
        mods.append([m, kind])
    return {"keys": keys, "key_dtype": dt, "init": init, "stream": stream, "mods": mods, "mag": mag,
            "noise_rate": noise_rate, "wide_rate": wide_rate, "value_dtype": value_dtype}


DELIVERY_KINDS = ["one_batch", "one_by_one", "fragments", "permuted", "with_empties", "with_noise", "duplicated",
                  "interleaved_reads"]


def deliver(rng, wl, kind, mod):
    """Turn a workload into a concrete history under one delivery schedule.
    Returns (history, expected multiplicity of the stream: 1, or per-fragment duplicates are
    reflected by the model automatically because the model counts what was delivered)."""
    keys, dt = wl["keys"], wl["key_dtype"]
    stream = list(wl["stream"])
    new = {"op": "new", "cls": "Counter", "dst": "h0", "keys": keys, "key_dtype": dt, "mod": mod,
           "values": wl["init"]}
    if wl.get("value_dtype"):
        new["value_dtype"] = wl["value_dtype"]
    elif wl["init"] == ["scalar", 0] and rng.random() < 0.5:
        new["default_init"] = True
    ops = [new]
    if wl["init"][0] == "arr" and rng.random() < 0.3:
        # a second counter built from the very same key and initial-value array objects: it sees no samples, so
        # it must keep reporting the initial values whatever the first one counts
        ops.append({"op": "new", "cls": "Counter", "dst": "h9", "keys": keys, "key_dtype": dt,
                    "mod": rng.choice([mod, None]), "values": wl["init"], "same_inputs_as": "h0"})

    info = np.iinfo(dt)

    def cnt(batch):
        op = {"op": "count", "h": "h0", "batch": list(batch)}
        set_query_container(rng, op, list(batch), dt, field="b_dtype")
        ops.append(op)

    def fragments(seq):
        out = []
        i = 0
        while i < len(seq):
            j = i + rng.randint(1, max(1, min(len(seq) - i, rng.choice([1, 2, 5, 20, 100]))))
            out.append(seq[i:j])
            i = j
        return out
    if kind == "one_batch":
        cnt(stream)
    elif kind == "one_by_one":
        for s in stream[:80]:
            cnt([s])
        if len(stream) > 80:
            cnt(stream[80:])
    elif kind == "fragments":
        for f in fragments(stream):
            cnt(f)
    elif kind == "permuted":
        rng.shuffle(stream)
        for f in fragments(stream):
            cnt(f)
    elif kind == "with_empties":
        for f in fragments(stream):
            if rng.random() < 0.4:
                cnt([])
            cnt(f)
        cnt([])
    elif kind == "with_noise":
        h = Hist(rng, {"key_dtypes": [dt], "absent_rate": 0, "weights": {}, "ops": [], "n_ops": 0, "faults": False})
        h.m["h0"] = {k: 0 for k in keys}
        h.info["h0"] = {"dt": dt}
        for f in fragments(stream):
            if rng.random() < 0.5:
                noise = [h.absent_key("h0") for _ in range(rng.randint(1, 6))]
                cnt([x for x in noise if x is not None])
            cnt(f)
    elif kind == "duplicated":
        for f in fragments(stream):
            cnt(f)
            if rng.random() < 0.3:
                ops.append(dict(ops[-1], reuse=True))       # the very same batch array object delivered again
    elif kind == "interleaved_reads":
        derived = False
        for f in fragments(stream):
            r = rng.random()
            if r < 0.25:
                ops.append({"op": "getv", "h": "h0", "keys": [rng.choice(keys) for _ in range(rng.randint(1, 4))],
                            "q_dtype": dt})
            elif r < 0.4:
                ops.append({"op": "items", "h": "h0", "f": rng.choice(["items", "to_dict"])})
            elif r < 0.5:
                ops.append({"op": "repr", "h": "h0"})
            elif r < 0.65 and not derived:
                ops.append({"op": "derive", "f": rng.choice(["zeros_like", "zeros_like", "ones_like"]), "src": "h0",
                            "dst": "h1"})
                derived = True
            elif r < 0.8 and derived:
                ops.append({"op": "count", "h": "h1", "batch": list(f)})
            cnt(f)
    ops.append({"op": "getv", "h": "h0", "keys": list(keys), "q_dtype": dt})
    return ops


def gen_clock(rng):
    kind = rng.choice(["steady", "backwards", "huge", "nan", "zero"])
    if kind == "steady":
        return [float(i) for i in range(8)], kind
    if kind == "backwards":
        return [rng.choice([1e9, 5.0, -3.0, 1e9 - 7, 0.0]) for _ in range(8)], kind
    if kind == "huge":
        return [1e300, -1e300, 1e18], kind
    if kind == "nan":
        return [float("nan"), float("inf"), -float("inf")], kind
    return [0.0], kind
