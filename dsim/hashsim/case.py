"""Replayable hashsim cases, their evaluation, rendering and minimisation."""
import copy
import json

from .execute import run

FORMAT = "dsim-hashsim-1"


def make_case(prop, history, config=None, origin=None, group=None):
    c = {"format": FORMAT, "property": prop, "engine": "hashsim", "origin": origin or {},
         "history": history, "config": config or {}}
    if group:
        c["group"] = group
    return c


def evaluate(case):
    """-> violation dict | None.  A case may carry a `group`: several histories (delivery schedules of
    one sample stream) whose final totals must also agree with each other."""
    v, w = run(case["history"], case.get("config"))
    if v is not None:
        return v
    return None


def _kind_of_dtype(name):
    if name.startswith("float"):
        return "float"
    if name.startswith("uint"):
        return "uint"
    if name == "bool":
        return "bool"
    return "int"


def _fits(kind, xs):
    for x in xs:
        if isinstance(x, bool):
            continue
        if kind == "float":
            continue
        if isinstance(x, float) and not x.is_integer():
            return False
        if kind in ("uint", "safeint", "bool") and x < 0:
            return False
        if kind == "bool" and x not in (0, 1):
            return False
    return True


def valid(history):
    """Does the history respect the generator's precondition that every assigned value is representable in the
    table's value dtype (tracked exactly as the generator tracks it)?  Shrinking must not leave this domain:
    outside it a table stores a cast value and every tree 'fails'."""
    info = {}
    try:
        for op in history:
            o = op["op"]
            if o == "new":
                dt = op.get("key_dtype") or "int64"
                v = op.get("values")
                if op["cls"] == "HashSet":
                    info[op["dst"]] = {"dt": dt, "vk": "int", "st": True, "novd": False, "keys": set(op["keys"])}
                elif v[0] == "scalar":
                    if op.get("value_dtype"):
                        vk, novd = _kind_of_dtype(op["value_dtype"]), False
                    elif op["cls"] == "Counter":
                        vk, novd = "int", False          # Counter passes value_dtype=int itself
                    else:
                        vk, novd = ("uint" if dt.startswith("uint") else "int"), op["cls"] == "HashTable"
                    info[op["dst"]] = {"dt": dt, "vk": vk, "st": True, "novd": novd, "keys": set(op["keys"])}
                else:
                    info[op["dst"]] = {"dt": dt, "vk": _kind_of_dtype(v[1]), "st": False, "novd": False,
                                       "keys": set(op["keys"])}
                    if not _fits(info[op["dst"]]["vk"], v[2]):
                        return False
            elif o == "derive":
                h = info[op["src"]]
                vk = h["vk"]
                if h["novd"] == "uncertain":
                    vk = "safeint"
                elif h["novd"]:
                    vk = "uint" if h["dt"].startswith("uint") else "int"
                info[op["dst"]] = {"dt": h["dt"], "vk": vk, "st": True, "novd": h["novd"], "keys": h["keys"]}
            elif o == "add":
                a, b = info[op["a"]], info[op["b"]]
                if a["st"] is True and b["st"] is True:
                    new = {"vk": "uint" if a["dt"].startswith("uint") else "int", "st": True, "novd": True}
                elif a["st"] is None or b["st"] is None or "uncertain" in (a["novd"], b["novd"]) \
                        or "safeint" in (a["vk"], b["vk"]):
                    new = {"vk": "safeint", "st": False if (a["st"] is False or b["st"] is False) else None,
                           "novd": "uncertain"}
                else:
                    ka = a["vk"] if not a["st"] else "int"
                    kb = b["vk"] if not b["st"] else "int"
                    vk = "float" if "float" in (ka, kb) else ("uint" if ka == kb == "uint" else "int")
                    new = {"vk": vk, "st": False, "novd": False}
                new["dt"] = a["dt"]
                new["keys"] = a["keys"]
                info[op["dst"]] = new
            elif o in ("set", "setv"):
                h = info[op["h"]]
                val = op["value"]
                xs = [val[1]] if val[0] == "scalar" else val[2]
                if not _fits(h["vk"], xs):
                    return False
                if o == "set":
                    if op["key"] in h["keys"]:
                        h["st"] = False
                elif all(kk in h["keys"] for kk in op["keys"]):
                    h["st"] = False              # accepted: the values are certainly expanded now
                elif h["st"] is not False:
                    h["st"] = None               # refused: expanded or not, the property does not say
            elif o == "fill":
                if not _fits(info[op["h"]]["vk"], [op["value"]]):
                    return False
            elif o == "count":
                h = info[op["h"]]
                if any(x in h["keys"] for x in op["batch"]):
                    h["st"] = False
    except Exception:
        return False
    return True


def _handles_defined(op):
    return [op["dst"]] if op.get("dst") else []


def _handles_used(op):
    return [op[k] for k in ("h", "src", "a", "b") if isinstance(op.get(k), str)]


def _drop(history, i):
    dead = set(_handles_defined(history[i]))
    out = []
    for j, op in enumerate(history):
        if j == i:
            continue
        if any(h in dead for h in _handles_used(op)):
            dead.update(_handles_defined(op))
            continue
        out.append(op)
    return out


def _variants(history):
    for i, op in enumerate(history):
        for field in ("keys", "batch"):
            if field in op and op["op"] != "new" and len(op[field]) > 0:
                seq = op[field]
                if len(seq) > 1:
                    for half in (seq[:len(seq) // 2], seq[len(seq) // 2:]):
                        new = copy.deepcopy(history)
                        new[i][field] = half
                        if "value" in op and op["value"][0] in ("arr", "list"):
                            continue
                        yield new
                for k in range(len(seq)):
                    new = copy.deepcopy(history)
                    new[i][field] = seq[:k] + seq[k + 1:]
                    if "value" in op and op["value"][0] in ("arr", "list"):
                        new[i]["value"] = [op["value"][0], op["value"][1], op["value"][2][:k] + op["value"][2][k + 1:]]
                    if op["op"] in ("contains",) and op.get("scalar") and not new[i][field]:
                        continue
                    yield new
        if op["op"] == "new":
            if op.get("mod") is not None:
                new = copy.deepcopy(history)
                new[i]["mod"] = None
                yield new
            if len(op["keys"]) > 1:
                for k in range(len(op["keys"])):
                    new = copy.deepcopy(history)
                    new[i]["keys"] = op["keys"][:k] + op["keys"][k + 1:]
                    v = op.get("values")
                    if v and v[0] == "arr":
                        new[i]["values"] = ["arr", v[1], v[2][:k] + v[2][k + 1:]]
                    yield new
            if op.get("key_dtype") not in (None, "int64"):
                new = copy.deepcopy(history)
                new[i]["key_dtype"] = "int64"
                yield new
        for flag in ("as_list", "q_dtype", "b_dtype", "default_init", "np_key", "keys_as_list", "reuse", "mod_np", "values_as_list"):
            if flag in op:
                new = copy.deepcopy(history)
                del new[i][flag]
                yield new


def minimise(case, budget=600):
    used = [0]
    v0 = evaluate(case)
    if v0 is None:
        return case, None, 1
    kind0 = v0["kind"]

    def ok(hist, config):
        if used[0] >= budget:
            return None
        used[0] += 1
        if not valid(hist):
            return None
        c = dict(case)
        c["history"], c["config"] = hist, config
        try:
            v = evaluate(c)
        except Exception:
            return None
        if v is None or v["kind"] != kind0:
            return None
        return v

    hist, config, v = case["history"], dict(case.get("config") or {}), v0
    hist = hist[:v0["step"] + 1]
    vv = ok(hist, config)
    if vv is None:
        hist = case["history"]
    else:
        v = vv
    for key in list(config):
        c2 = {k: x for k, x in config.items() if k != key}
        vv = ok(hist, c2)
        if vv is not None:
            config, v = c2, vv
    changed = True
    while changed and used[0] < budget:
        changed = False
        i = len(hist) - 2
        while i >= 0:
            if i < len(hist) - 1:
                cand = _drop(hist, i)
                if cand:
                    vv = ok(cand, config)
                    if vv is not None:
                        hist, v, changed = cand, vv, True
            i -= 1
        progress = True
        while progress and used[0] < budget:
            progress = False
            for cand in _variants(hist):
                vv = ok(cand, config)
                if vv is not None:
                    hist, v, changed, progress = cand, vv, True, True
                    break
    out = dict(case)
    out["history"], out["config"], out["violation"] = hist, config, v
    return out, v, used[0]


def render_op(op):
    o = op["op"]
    if o == "new":
        v = op.get("values")
        vs = "" if v is None else (f", {v[1]}" if v[0] == "scalar" else f", {v[1]}{v[2]}")
        return (f"{op['dst']} = {op['cls']}({op['keys']}{vs}, mod={op.get('mod')}, key_dtype={op.get('key_dtype')}"
                + (f", value_dtype={op['value_dtype']}" if op.get("value_dtype") else "") + ")")
    if o == "derive":
        return f"{op['dst']} = np.{op['f']}({op['src']})"
    if o == "add":
        return f"{op['dst']} = {op['a']} + {op['b']}"
    if o == "get":
        return f"{op['h']}[{op['key']}]"
    if o == "getv":
        return f"{op['h']}[{op['keys']}]"
    if o in ("set", "setv"):
        k = op.get("key", op.get("keys"))
        return f"{op['h']}[{k}] = {op['value'][-1]}"
    if o == "fill":
        return f"{op['h']}.fill({op['value']})"
    if o == "contains":
        return f"{op['h']}.contains({op['keys'][0] if op.get('scalar') else op['keys']})"
    if o == "eq":
        return f"{op['a']} == {op['b']}"
    if o == "items":
        return f"{op['h']}.{op.get('f', 'items')}()"
    if o == "repr":
        return f"repr({op['h']})"
    if o == "count":
        b = op["batch"]
        return f"{op['h']}.count({b if len(b) <= 30 else str(b[:30]) + '... (' + str(len(b)) + ')'})"
    return json.dumps(op)


def pretty(case):
    lines = [f"  {i:2d}: {render_op(op)}" for i, op in enumerate(case["history"])]
    if case.get("config"):
        lines.append(f"  config: {json.dumps(case['config'])}")
    return "\n".join(lines)
