"""Executes a concrete history of HashTable / HashSet / Counter operations against the real
library, checking every operation and, after every operation, *all* live handles against one
Python dict per handle (the reference model).

A history is a list of op dicts (JSON); handles are named h0, h1, ...  The expected results are
computed from the model while the history runs, never stored, so any well-formed history is a valid
test and replay is a pure function of (history, config, code).

config: {"fast_off": bool     buggify: ViewBase.empty_rows_removed() always False (fast path skipped)
         "clock": [floats]    values returned by the fake clock behind npstructures.hashtable.time
         "width": "int64"|"int32"}
"""
import warnings

import numpy as np

from ..core import sut

nps = sut.load()
from npstructures import HashTable, HashSet, Counter, RaggedArray  # noqa: E402
import npstructures.hashtable as _ht  # noqa: E402
from npstructures.raggedshape import ViewBase  # noqa: E402

CLASSES = {"HashTable": HashTable, "HashSet": HashSet, "Counter": Counter}


class FakeClock:
    """Stands in for the `time` module inside npstructures.hashtable (the library reads the clock in
    Counter.count; the simulator owns it: values may jump backwards, be huge or NaN)."""

    def __init__(self, values):
        self.values = list(values) or [0.0]
        self.i = 0
        self.reads = 0

    def time(self):
        v = self.values[self.i % len(self.values)]
        self.i += 1
        self.reads += 1
        return v

    def __getattr__(self, name):   # anything else the module might want from `time`
        import time as _t
        return getattr(_t, name)


class Violation(Exception):
    def __init__(self, kind, step, detail):
        super().__init__(kind)
        self.kind, self.step, self.detail = kind, step, detail

    def as_dict(self):
        return {"kind": self.kind, "step": self.step, "detail": self.detail}


def _pyval(x):
    if isinstance(x, np.generic):
        x = x.item()
    if isinstance(x, bool):
        return int(x)
    if isinstance(x, float) and x == int(x):
        return int(x)
    return x


def _flat(x):
    return [_pyval(v) for v in np.asarray(x).ravel().tolist()]


def _keyarr(keys, dtype):
    return np.array(keys, dtype=dtype if dtype else np.int64)


class World:
    def __init__(self, config=None):
        self.config = config or {}
        self.h = {}          # handle -> live object
        self.m = {}          # handle -> dict model
        self.cls = {}        # handle -> class name
        self.family = {}     # handle -> key family id (shared key storage)
        self.inputs = {}     # handle -> (keys array, values array) objects given to its constructor
        self.last_array = None
        self.stats = {}
        self.audits = 0

    def count(self, k, n=1):
        self.stats[k] = self.stats.get(k, 0) + n

    def caller_array(self, op, values, dtype):
        """The array object the caller passes in.  With op["reuse"] the very same object as in the previous vector
        operation is passed again (the library must not have modified the caller's array)."""
        if op.get("as_list"):
            return list(values)
        if op.get("reuse") and self.last_array is not None and self.last_array[0] == (list(values), dtype):
            self.count("caller_arrays_reused")
            return self.last_array[1]
        arr = _keyarr(values, dtype)
        self.last_array = ((list(values), dtype), arr)
        return arr

    # -- audit: all handles against their models, reading fields without going through the API ----
    def _peek(self, t):
        keys = t._keys
        if not getattr(keys, "is_contigous", False):
            return None
        kflat = _flat(keys.ravel())
        v = t._values
        if isinstance(v, RaggedArray):
            if not v.is_contigous:
                return None
            vflat = _flat(v.ravel())
            if len(vflat) != len(kflat):
                return {"__broken__": (len(kflat), len(vflat))}
        elif isinstance(v, (int, float, bool, np.generic)):
            vflat = [_pyval(v)] * len(kflat)
        else:
            return None
        return dict(zip(kflat, vflat)) if len(set(kflat)) == len(kflat) else {"__dupkeys__": kflat}

    def audit(self, step):
        for name in sorted(self.h, key=lambda s: int(s[1:])):
            try:
                got = self._peek(self.h[name])
            except Exception:
                got = None
            if got is None:
                self.count("audit_unreadable")
                continue
            self.audits += 1
            if got != self.m[name]:
                diff = {str(k): [self.m[name].get(k, "<absent>"), got.get(k, "<absent>")]
                        for k in sorted(set(self.m[name]) | set(got), key=str)
                        if self.m[name].get(k, "<absent>") != got.get(k, "<absent>")}
                raise Violation("audit", step, {"handle": name, "expected_vs_got": dict(list(diff.items())[:8])})

    def state_of(self, name):
        """Non-gating reach probe: which hidden value state a table is in."""
        try:
            v = self.h[name]._values
            return "array" if isinstance(v, RaggedArray) else ("scalar0" if v == 0 else "scalarN")
        except Exception:
            return "unknown"

    # -- operations --------------------------------------------------------------------------
    def do(self, i, op):
        k = op["op"]
        fn = getattr(self, "op_" + k)
        self.count("op:" + k)
        fn(i, op)

    def _call(self, fn):
        """-> ("ok", result) | ("raised", exc)"""
        try:
            return "ok", fn()
        except Violation:
            raise
        except Exception as e:
            return "raised", e

    def op_new(self, i, op):
        cls = CLASSES[op["cls"]]
        keys = _keyarr(op["keys"], op.get("key_dtype"))
        shared = self.inputs.get(op.get("same_inputs_as"))
        if shared is not None:
            keys = shared[0]          # the very same array objects an earlier table was built from
        kw = {}
        if op.get("mod_np") and op.get("mod") is not None:
            op = dict(op)   # (the modulus handed over as a numpy integer)
        if op.get("keys_as_list"):
            keys = list(op["keys"])
            kw["key_dtype"] = np.dtype(op["key_dtype"]).type
        if op.get("mod") is not None:
            kw["mod"] = np.int64(op["mod"]) if op.get("mod_np") else op["mod"]
        val = op.get("values")
        if op["cls"] == "HashSet":
            st, t = self._call(lambda: HashSet(keys, **kw))
            model = {int(kk): 0 for kk in op["keys"]}
        else:
            if val[0] == "scalar":
                v = val[1]
                model = {int(kk): _pyval(v) for kk in op["keys"]}
            else:
                v = np.array(val[2], dtype=val[1])
                model = {int(kk): _pyval(x) for kk, x in zip(op["keys"], v.tolist())}
                if shared is not None and shared[1] is not None:
                    v = shared[1]
                    self.count("tables_built_from_shared_input_arrays")
                elif op.get("values_as_list"):
                    v = list(val[2])
            if op.get("value_dtype"):
                kw["value_dtype"] = np.dtype(op["value_dtype"]).type
            if op["cls"] == "Counter" and val[0] == "scalar" and v == 0 and op.get("default_init"):
                st, t = self._call(lambda: Counter(keys, **kw))
            else:
                st, t = self._call(lambda: cls(keys, v, **kw))
        if st == "raised":
            raise Violation("constructor_refused", i, {"exc": type(t).__name__, "msg": str(t)[:200]})
        d = op["dst"]
        self.h[d], self.m[d], self.cls[d] = t, model, op["cls"]
        self.family[d] = d
        if op["cls"] != "HashSet" and isinstance(keys, np.ndarray):
            self.inputs[d] = (keys, v if isinstance(v, np.ndarray) else None)
        try:
            lens = np.asarray(t._keys.lengths)
            self.count("bucket_max_len_ge3" if lens.max(initial=0) >= 3 else "bucket_max_len_lt3")
            if (lens == 0).mean() > 0.5:
                self.count("mostly_empty_buckets")
            if len(lens) == 1:
                self.count("mod1_tables")
            if len(lens) > 1 and (lens > 0).sum() == 1 and len(op["keys"]) > 1:
                self.count("all_collide_tables")
        except Exception:
            pass

    def op_derive(self, i, op):
        src = op["src"]
        f = {"zeros_like": np.zeros_like, "ones_like": np.ones_like}[op["f"]]
        st, t = self._call(lambda: f(self.h[src]))
        if st == "raised":
            raise Violation("derive_refused", i, {"exc": type(t).__name__, "msg": str(t)[:200]})
        d = op["dst"]
        fillv = 0 if op["f"] == "zeros_like" else 1
        # (the class of the derived table is not part of the property; it is only remembered so that count() is
        # not demanded of something that is not a Counter)
        self.h[d], self.m[d], self.cls[d] = t, {kk: fillv for kk in self.m[src]}, type(t).__name__
        self.family[d] = self.family[src]

    def op_add(self, i, op):
        a, b = op["a"], op["b"]
        st, t = self._call(lambda: self.h[a] + self.h[b])
        if st == "raised":
            raise Violation("add_refused", i, {"exc": type(t).__name__, "msg": str(t)[:200]})
        d = op["dst"]
        self.h[d], self.cls[d] = t, "HashTable"
        self.m[d] = {kk: self.m[a][kk] + self.m[b][kk] for kk in self.m[a]}
        self.family[d] = self.family[a]

    def op_get(self, i, op):
        hname, key = op["h"], op["key"]
        model = self.m[hname]
        k = np.dtype(op["np_key"]).type(key) if op.get("np_key") else key
        st, r = self._call(lambda: self.h[hname][k])
        if key not in model:
            self.count("scalar_lookup_absent")
            return  # outside the statement
        if st == "raised":
            raise Violation("lookup_refused", i, {"key": key, "exc": type(r).__name__, "msg": str(r)[:200]})
        got = _flat(r)
        if got != [model[key]]:
            raise Violation("lookup_value", i, {"key": key, "expected": model[key], "got": got[:8]})

    def op_getv(self, i, op):
        hname, keys = op["h"], op["keys"]
        model = self.m[hname]
        q = self.caller_array(op, keys, op.get("q_dtype"))
        st, r = self._call(lambda: self.h[hname][q])
        absent = [kk for kk in keys if kk not in model]
        if absent:
            self.count("refusals_injected")
            if st != "raised":
                raise Violation("absent_key_not_refused", i, {"absent": absent[:5], "got": _flat(r)[:8]})
            self.count("refusals_observed")
            return
        if st == "raised":
            raise Violation("lookup_refused", i, {"keys": keys[:8], "exc": type(r).__name__, "msg": str(r)[:200]})
        got = _flat(r)
        exp = [model[kk] for kk in keys]
        if got != exp:
            raise Violation("lookup_value", i, {"keys": keys[:8], "expected": exp[:8], "got": got[:8]})

    def _value(self, v):
        if v[0] == "scalar":
            return v[1], None
        if v[0] == "list":
            return list(v[2]), v[2]
        return np.array(v[2], dtype=v[1]), v[2]

    def op_set(self, i, op):
        hname, key = op["h"], op["key"]
        model = self.m[hname]
        val, _ = self._value(op["value"])
        before = self.state_of(hname)
        k = np.dtype(op["np_key"]).type(key) if op.get("np_key") else key
        st, r = self._call(lambda: self.h[hname].__setitem__(k, val))
        if key not in model:
            return
        if st == "raised":
            raise Violation("assign_refused", i, {"key": key, "exc": type(r).__name__, "msg": str(r)[:200]})
        model[key] = _pyval(val)
        if before != "array":
            self.count("write_hit_scalar_state")

    def op_setv(self, i, op):
        hname, keys = op["h"], op["keys"]
        model = self.m[hname]
        val, per = self._value(op["value"])
        before = self.state_of(hname)
        q = _keyarr(keys, op.get("q_dtype")) if not op.get("as_list") else list(keys)
        st, r = self._call(lambda: self.h[hname].__setitem__(q, val))
        absent = [kk for kk in keys if kk not in model]
        if absent:
            self.count("refusals_injected")
            if st != "raised":
                # The property does not say that an assignment naming an absent key must be refused - only that
                # the key set never changes and that assignment changes the addressed keys only.  If the library
                # accepts it, the addressed present keys must hold their new values (the audit then checks that
                # nothing else changed and that no key appeared).
                self.count("absent_key_assignments_accepted")
                for j, kk in enumerate(keys):
                    if kk in model:
                        model[kk] = _pyval(per[j]) if per is not None else _pyval(val)
                return
            self.count("refusals_observed")
            # narrow relaxation: each addressed present key holds its old or its new value
            try:
                got = self._peek(self.h[hname])
            except Exception:
                got = None
            if got is None:
                # private layout unreadable (a refactored library): ask through the public API instead
                got = {}
                for kk in keys:
                    if kk in model:
                        try:
                            r1 = _flat(self.h[hname][kk])
                            if len(r1) == 1:
                                got[kk] = r1[0]
                        except Exception:
                            pass
            if "__broken__" not in got and "__dupkeys__" not in got:
                for j, kk in enumerate(keys):
                    if kk in model:
                        new = _pyval(per[j]) if per is not None else _pyval(val)
                        if got.get(kk) == new:
                            model[kk] = new
            return
        if st == "raised":
            raise Violation("assign_refused", i, {"keys": keys[:8], "exc": type(r).__name__, "msg": str(r)[:200]})
        for j, kk in enumerate(keys):
            model[kk] = _pyval(per[j]) if per is not None else _pyval(val)
        if before != "array":
            self.count("write_hit_scalar_state")

    def op_fill(self, i, op):
        hname = op["h"]
        st, r = self._call(lambda: self.h[hname].fill(op["value"]))
        if st == "raised":
            raise Violation("fill_refused", i, {"exc": type(r).__name__, "msg": str(r)[:200]})
        for kk in self.m[hname]:
            self.m[hname][kk] = _pyval(op["value"])

    def op_contains(self, i, op):
        hname, keys = op["h"], op["keys"]
        model = self.m[hname]
        if op.get("scalar"):
            st, r = self._call(lambda: self.h[hname].contains(keys[0]))
            exp = [keys[0] in model]
        else:
            q = self.caller_array(op, keys, op.get("q_dtype"))
            st, r = self._call(lambda: self.h[hname].contains(q))
            exp = [kk in model for kk in keys]
        if st == "raised":
            raise Violation("contains_refused", i, {"keys": keys[:8], "exc": type(r).__name__, "msg": str(r)[:200]})
        got = [bool(x) for x in np.asarray(r).ravel().tolist()]
        if got != exp:
            raise Violation("contains_value", i, {"keys": keys[:8], "expected": exp[:8], "got": got[:8]})

    def op_eq(self, i, op):
        a, b = op["a"], op["b"]
        st, r = self._call(lambda: self.h[a] == self.h[b])
        if st == "raised":
            raise Violation("eq_refused", i, {"exc": type(r).__name__, "msg": str(r)[:200]})
        exp = self.m[a] == self.m[b]
        if bool(r) != exp:
            raise Violation("eq_value", i, {"expected": exp, "got": bool(r)})

    def op_items(self, i, op):
        hname = op["h"]
        if op.get("f") == "to_dict":
            st, r = self._call(lambda: self.h[hname].to_dict())
        else:
            st, r = self._call(lambda: dict(self.h[hname].items()))
        if st == "raised":
            raise Violation("items_refused", i, {"f": op.get("f", "items"), "exc": type(r).__name__, "msg": str(r)[:200]})
        got = {_pyval(kk): _pyval(v) for kk, v in r.items()}
        if got != self.m[hname]:
            raise Violation("items_value", i, {"expected": dict(list(self.m[hname].items())[:6]),
                                                "got": dict(list(got.items())[:6])})

    def op_repr(self, i, op):
        self._call(lambda: repr(self.h[op["h"]]))

    def op_count(self, i, op):
        hname = op["h"]
        if not isinstance(self.h[hname], Counter):
            self.count("count_on_non_counter_skipped")
            return
        model = self.m[hname]
        before = self.state_of(hname)
        batch = op["batch"]
        arg = self.caller_array(op, batch, op.get("b_dtype"))
        st, r = self._call(lambda: self.h[hname].count(arg))
        if st == "raised":
            raise Violation("count_refused", i, {"batch": batch[:10], "exc": type(r).__name__, "msg": str(r)[:200]})
        hits = 0
        for s in batch:
            if s in model:
                model[s] += 1
                hits += 1
        self.count("count_branch:" + ("nohit" if not hits else before))
        try:
            ki = np.iinfo(self.h[hname]._keys.dtype)
            nwide = sum(1 for s in batch if not (int(ki.min) <= s <= int(ki.max)))
            if nwide:
                self.count("count_samples_outside_key_dtype_range", nwide)
        except Exception:
            pass
        if not batch:
            self.count("count_empty_delivery")
        elif not hits:
            self.count("count_noise_only_delivery")


def run(history, config=None, audit=True):
    """Returns (violation dict | None, World)."""
    config = config or {}
    w = World(config)
    old_time = getattr(_ht, "time", None)
    clock = FakeClock(config.get("clock") or [0.0])
    _ht.time = clock
    old_fast = getattr(ViewBase, "empty_rows_removed", None)
    if config.get("fast_off") and old_fast is not None:
        ViewBase.empty_rows_removed = lambda self: False
    old_width = getattr(ViewBase, "_dtype", np.int64)
    if config.get("width") == "int32":
        ViewBase.set_dtype(np.int32)
    v = None
    try:
        with warnings.catch_warnings(), np.errstate(all="ignore"):
            warnings.simplefilter("ignore")
            for i, op in enumerate(history):
                try:
                    w.do(i, op)
                    if audit:
                        w.audit(i)
                except Violation as e:
                    v = e.as_dict()
                    v["op"] = op["op"]
                    break
            if v is None and audit and w.stats.get("audit_unreadable"):
                # the private layout is not what the audit expects (a refactored library): fall back to one
                # public read per handle at the end of the run
                for name in sorted(w.h, key=lambda s: int(s[1:])):
                    try:
                        got = {_pyval(kk): _pyval(x) for kk, x in w.h[name].items()}
                    except Exception:
                        continue
                    w.count("fallback_end_audits")
                    if got != w.m[name]:
                        v = {"kind": "audit", "step": len(history) - 1, "op": "end-of-run",
                             "detail": {"handle": name, "via": "items()"}}
                        break
    finally:
        if old_time is not None:
            _ht.time = old_time
        elif hasattr(_ht, "time"):
            del _ht.time
        if old_fast is not None:
            ViewBase.empty_rows_removed = old_fast
        ViewBase.set_dtype(old_width)
    w.stats["clock_reads"] = clock.reads
    return v, w
