"""One integer decides everything: every run seed is a pure function of (VERIF_SEED, stream, index)."""
import hashlib
import os
import random


def verif_seed():
    try:
        return int(os.environ.get("VERIF_SEED", "0"))
    except ValueError:
        return 0


def derive(*parts):
    s = ":".join(str(p) for p in parts).encode()
    return int.from_bytes(hashlib.blake2b(s, digest_size=8).digest(), "big")


def rng_for(*parts):
    return random.Random(derive(*parts))
