"""Locate and import the system under test: the *working tree* of the repository.

Nothing is built or copied: the package is pure Python, so putting the repository root first on
sys.path makes every check run exactly the sources that are on disk now.  DSIM_REPO overrides the
location (used only by the sensitivity self-tests, which run the checks against scratch copies).
"""
import os
import sys

REPO = os.path.realpath(os.environ.get("DSIM_REPO", "/repo"))
_loaded = None


def load():
    global _loaded
    if _loaded is not None:
        return _loaded
    sys.dont_write_bytecode = True
    if not sys.path or sys.path[0] != REPO:
        sys.path.insert(0, REPO)
    for name in list(sys.modules):
        if name == "npstructures" or name.startswith("npstructures."):
            raise RuntimeError("npstructures imported before dsim.core.sut.load()")
    import npstructures  # noqa
    where = os.path.realpath(npstructures.__file__)
    if not where.startswith(REPO + os.sep):
        raise RuntimeError(f"npstructures imported from {where}, expected under {REPO}")
    _loaded = npstructures
    return npstructures


def tree_digest():
    """sha256 over the package sources, recorded in evidence so a reader knows what ran."""
    import hashlib
    h = hashlib.sha256()
    root = os.path.join(REPO, "npstructures")
    for d, dirs, files in sorted(os.walk(root)):
        dirs.sort()
        for f in sorted(files):
            if f.endswith(".py"):
                p = os.path.join(d, f)
                h.update(os.path.relpath(p, root).encode())
                with open(p, "rb") as fh:
                    h.update(fh.read())
    return h.hexdigest()[:16]
