"""Fork pool that executes run indices in contiguous chunks and merges results in index order.

The outcome is independent of the worker count and of completion order: a chunk's result is a pure
function of (seed, stream, run indices); merging is done by chunk number.  A worker that dies, hangs
past the hard limit or raises a harness exception makes the whole check fail with HarnessFailure
(exit 2) - never exit 0 and never a VIOLATION line.
"""
import concurrent.futures as cf
import faulthandler
import multiprocessing
import os
import resource
import signal
import sys
import traceback


class HarnessFailure(Exception):
    pass


class RunTimeout(BaseException):
    """Raised inside a worker by SIGALRM; BaseException so that step-level `except Exception`
    (which records RAISED outcomes) cannot swallow it."""


def _alarm_handler(signum, frame):
    raise RunTimeout()


def _worker_init(mem_bytes):
    faulthandler.enable(all_threads=True)
    signal.signal(signal.SIGALRM, _alarm_handler)
    if mem_bytes:
        try:
            resource.setrlimit(resource.RLIMIT_AS, (mem_bytes, mem_bytes))
        except (ValueError, OSError):
            pass


def _run_chunk(args):
    fn, chunk_no, lo, hi, payload, hard_s = args
    faulthandler.dump_traceback_later(hard_s, exit=True)
    try:
        return chunk_no, fn(lo, hi, payload)
    except RunTimeout:
        return chunk_no, {"__harness_error__": f"chunk {chunk_no} [{lo},{hi}): run exceeded its alarm"}
    except Exception:
        return chunk_no, {"__harness_error__": f"chunk {chunk_no} [{lo},{hi}):\n" + traceback.format_exc()}
    finally:
        faulthandler.cancel_dump_traceback_later()


def n_workers():
    try:
        w = int(os.environ.get("DSIM_WORKERS", "0"))
    except ValueError:
        w = 0
    if w > 0:
        return w
    return max(1, min(16, os.cpu_count() or 1))


def run_chunks(fn, n_runs, payload, chunk=None, workers=None, hard_s=900, mem_gb=6):
    """fn(lo, hi, payload) -> picklable result; returns list of results in chunk order."""
    workers = workers or n_workers()
    if chunk is None:
        chunk = max(1, min(500, n_runs // (workers * 8) or 1))
    jobs = []
    lo = 0
    k = 0
    while lo < n_runs:
        hi = min(n_runs, lo + chunk)
        jobs.append((fn, k, lo, hi, payload, hard_s))
        lo = hi
        k += 1
    results = [None] * len(jobs)
    if workers == 1:
        _worker_init(0)
        for j in jobs:
            no, r = _run_chunk(j)
            results[no] = r
    else:
        ctx = multiprocessing.get_context("fork")
        with cf.ProcessPoolExecutor(max_workers=workers, mp_context=ctx,
                                    initializer=_worker_init,
                                    initargs=(int(mem_gb * (1 << 30)),)) as ex:
            futs = [ex.submit(_run_chunk, j) for j in jobs]
            try:
                for f in cf.as_completed(futs):
                    no, r = f.result()
                    results[no] = r
            except cf.process.BrokenProcessPool as e:
                raise HarnessFailure(f"a worker process died: {e}")
    for r in results:
        if r is None:
            raise HarnessFailure("missing chunk result")
        if isinstance(r, dict) and "__harness_error__" in r:
            raise HarnessFailure(r["__harness_error__"])
    return results


def set_run_alarm(seconds):
    signal.setitimer(signal.ITIMER_REAL, seconds)


def clear_run_alarm():
    signal.setitimer(signal.ITIMER_REAL, 0)
