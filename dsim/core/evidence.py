"""Evidence files (/verif/evidence/<id>.json, schema /root/.vp/EVIDENCE.schema.json) and the
known-findings register (/verif/known_findings.json, never written at run time)."""
import json
import os

VERIF = os.path.dirname(os.path.dirname(os.path.dirname(os.path.abspath(__file__))))
EVIDENCE_DIR = os.path.join(VERIF, "evidence")
REPLAY_DIR = os.path.join(VERIF, "replays")
WITNESS_DIR = os.path.join(VERIF, "witnesses")
KNOWN_FILE = os.path.join(VERIF, "known_findings.json")


def write_evidence(prop, tier, seed, coverage, wall_s, violations, assumptions, level="exploration"):
    os.makedirs(EVIDENCE_DIR, exist_ok=True)
    doc = {
        "property_id": prop,
        "tier": tier,
        "seed": int(seed),
        "level": level,
        "coverage": coverage,
        "assumptions": assumptions,
        "wall_s": round(float(wall_s), 3),
        "violations": int(violations),
    }
    path = os.path.join(EVIDENCE_DIR, f"{prop}.json")
    tmp = path + ".tmp"
    with open(tmp, "w") as fh:
        json.dump(doc, fh, indent=1, sort_keys=True, default=str)
        fh.write("\n")
    os.replace(tmp, path)
    return path


def load_known():
    if not os.path.exists(KNOWN_FILE):
        return []
    with open(KNOWN_FILE) as fh:
        return json.load(fh)["findings"]


def open_findings(prop):
    return [f for f in load_known() if f["property"] == prop and f["status"] == "open"]


def save_replay(case, prop, tag):
    os.makedirs(REPLAY_DIR, exist_ok=True)
    path = os.path.join(REPLAY_DIR, f"{prop}-{tag}.json")
    with open(path, "w") as fh:
        json.dump(case, fh, indent=1, sort_keys=True)
        fh.write("\n")
    return path
