"""Replay of a self-contained case file: a pure function of the file and the code under test."""
import json


def main(path):
    with open(path) as fh:
        case = json.load(fh)
    fmt = case.get("format", "")
    if fmt.startswith("dsim-ragsim"):
        from ..ragsim.case import evaluate, pretty
        d, ea, eb = evaluate(case)
        print(pretty(case))
        if d is None:
            print(f"replay: histories are equal - the recorded divergence does not occur on this tree")
            return 0
        print("first divergence:", json.dumps(d)[:1200])
        print(f"VIOLATION property={case['property']} replay={path}")
        return 1
    if fmt.startswith("dsim-hashsim"):
        from ..hashsim.case import evaluate, pretty
        v = evaluate(case)
        print(pretty(case))
        if v is None:
            print("replay: no violation on this tree")
            return 0
        print("violation:", json.dumps(v)[:1200])
        print(f"VIOLATION property={case['property']} replay={path}")
        return 1
    print("unknown replay format", fmt)
    return 2
