"""Reach measurement (non-gating): statement coverage of the property's anchored library files over a
sample of this run's cases, executed once more in the parent process under coverage.py when it is
installed.  A line that the workload never reaches is a blind spot of the exploration; the list of
unreached lines is written into the evidence file so that it can be read, not guessed."""
import os

from . import sut


def _import_time_lines(path):
    """Lines that only run when the module is imported (module- and class-level statements, def / decorator
    lines): the package is imported before the probe starts, so they say nothing about reach."""
    import ast
    with open(path) as fh:
        tree = ast.parse(fh.read())
    lines = set()

    def visit(body, inside_function):
        for node in body:
            if isinstance(node, (ast.FunctionDef, ast.AsyncFunctionDef)):
                if not inside_function:
                    for d in node.decorator_list:
                        lines.update(range(d.lineno, getattr(d, "end_lineno", d.lineno) + 1))
                    lines.add(node.lineno)
                    # signature lines (multi-line defs)
                    first = node.body[0].lineno if node.body else node.lineno
                    lines.update(range(node.lineno, first))
                visit(node.body, True)
            elif isinstance(node, ast.ClassDef):
                if not inside_function:
                    lines.update(range(node.lineno, (node.body[0].lineno if node.body else node.lineno)))
                visit(node.body, inside_function)
            else:
                if not inside_function:
                    lines.update(range(node.lineno, getattr(node, "end_lineno", node.lineno) + 1))
                for field in ("body", "orelse", "finalbody", "handlers"):
                    sub = getattr(node, field, None)
                    if isinstance(sub, list):
                        visit([x for x in sub if isinstance(x, ast.AST) and hasattr(x, "lineno")], inside_function)
    visit(tree.body, False)
    return lines


def measure(files, fn):
    """Run fn() under coverage restricted to `files` (paths relative to the repo root).
    Returns a dict for the evidence file."""
    try:
        import coverage
    except Exception:
        return {"available": False, "reason": "coverage.py not installed in this interpreter"}
    paths = [os.path.join(sut.REPO, f) for f in files]
    try:
        cov = coverage.Coverage(include=paths, data_file=None, config_file=False)
        cov.start()
        try:
            fn()
        finally:
            cov.stop()
        out = {"available": True, "files": {}}
        for p in paths:
            try:
                _, stmts, _, missing, _ = cov.analysis2(p)
            except Exception:
                continue
            skip = _import_time_lines(p)
            stmts = [x for x in stmts if x not in skip]
            missing = [x for x in missing if x not in skip]
            out["files"][os.path.relpath(p, sut.REPO)] = {
                "statements_inside_functions": len(stmts), "executed": len(stmts) - len(missing),
                "unreached_lines": _ranges(missing)}
        return out
    except Exception as e:  # never let a probe decide anything
        return {"available": False, "reason": f"{type(e).__name__}: {e}"}


def _ranges(nums):
    out = []
    start = prev = None
    for n in nums:
        if start is None:
            start = prev = n
        elif n == prev + 1:
            prev = n
        else:
            out.append(str(start) if start == prev else f"{start}-{prev}")
            start = prev = n
    if start is not None:
        out.append(str(start) if start == prev else f"{start}-{prev}")
    return ", ".join(out)
