"""Self-tests of the machinery itself.

  python -m dsim selftest determinism [--runs N]
      every check, same VERIF_SEED, run in fresh interpreters under two PYTHONHASHSEED values and
      worker counts 1 / 4 / 16; the event-log digests (program text, schedules, every observation)
      must be identical.
  python -m dsim selftest sensitivity [--only NAME] [--runs N] [--suite]
      applies hand-written mutations (and the reverse of every `fix:` commit) to a scratch copy of
      the repository outside /repo and /verif, and requires the corresponding check to report a
      VIOLATION on the mutant and exit 0 on the clean copy.  With --suite the pinned test-suite is
      also run on each mutant (to know which mutants survive it).
"""
import json
import os
import re
import shutil
import subprocess
import sys
import tempfile

from .core import evidence

PROPS = ["C06", "C10", "C19", "C11", "C12"]
DEF_RUNS = {"C06": 400, "C10": 400, "C19": 400, "C11": 1500, "C12": 400}


def _run_check(prop, runs, env_extra, timeout=1200, extra=()):
    env = dict(os.environ)
    env.update(env_extra)
    p = subprocess.run([sys.executable, "-m", "dsim", "check", prop, "--runs", str(runs), "--no-evidence", *extra],
                       cwd=evidence.VERIF, env=env, capture_output=True, text=True, timeout=timeout)
    m = re.search(r"digest ([0-9a-f]+)", p.stdout)
    return p.returncode, (m.group(1) if m else None), p.stdout + p.stderr


def determinism(opts):
    runs_override = int(opts["runs"]) if "runs" in opts else None
    bad = 0
    for prop in PROPS:
        runs = runs_override or DEF_RUNS[prop]
        seen = []
        for hs, workers in (("0", "16"), ("12345", "4"), ("7", "1"), ("0", "16")):
            rc, dg, out = _run_check(prop, runs, {"PYTHONHASHSEED": hs, "DSIM_WORKERS": workers,
                                                  "VERIF_SEED": opts.get("seed", "0")})
            if rc not in (0, 1) or dg is None:
                print(f"determinism: {prop} hashseed={hs} workers={workers}: harness failure rc={rc}\n{out[-2000:]}")
                bad += 1
                continue
            seen.append((rc, dg))
        vals = set(seen)
        status = "OK" if len(vals) == 1 and len(seen) == 4 else "MISMATCH"
        if status != "OK":
            bad += 1
        print(f"determinism: {prop}: {runs} runs x 4 configurations (hashseed/workers) -> {status} {sorted(vals)}")
    return 0 if bad == 0 else 2


# ---------------------------------------------------------------------------------------------
# mutants: (name, property checks expected to catch it, file, old text, new text)

MUTANTS = [
    ("c06_pos_col_slice_drops_step_from_offset", ["C06"], "npstructures/raggedshape.py",
     "return self.__class__(self.starts+self.col_step*start,", "return self.__class__(self.starts+start,"),
    ("c06_pos_col_slice_drops_compound_step", ["C06"], "npstructures/raggedshape.py",
     "                              self.col_step*col_slice.step)", "                              col_slice.step)"),
    ("c06_view_rows_drops_col_step", ["C06"], "npstructures/raggedshape.py",
     "                              self.lengths[indices],\n                              self.col_step,",
     "                              self.lengths[indices],\n                              1,"),
    ("c06_neg_col_slice_drops_step_from_offset", ["C06"], "npstructures/raggedshape.py",
     "starts = self.starts + self.col_step*col_slice_start", "starts = self.starts + col_slice_start"),
    # (removing only the initial self.ravel() became behaviour-preserving with the R01 repair: detaching the unread
    # selections of the shared buffer materialises the target itself too)
    ("c06_setitem_without_materialising_or_detaching", ["C06", "C10"], "npstructures/raggedarray/indexablearray.py",
     "        self.ravel()\n        self._detach_lazy_selections()\n        ret = self._get_row_subset(_index)",
     "        ret = self._get_row_subset(_index)"),
    ("c10_get_shape_without_copy", ["C10", "C06"], "npstructures/raggedshape.py",
     "        codes = self._codes.copy()\n        if self._step is not None:", "        codes = self._codes\n        if self._step is not None:"),
    ("c10_astype_aliases_same_dtype", ["C10", "C06"], "npstructures/raggedarray/__init__.py",
     "return RaggedArray(self.ravel().astype(dtype), self._shape)",
     "return RaggedArray(self.ravel().astype(dtype, copy=False), self._shape)"),
    ("c10_sort_in_place", ["C10"], "npstructures/raggedarray/__init__.py",
     "            return self.__class__(self.ravel()[args], self._shape)",
     "            self.ravel()[:] = self.ravel()[args]\n            return self.__class__(self.ravel().copy(), self._shape)"),
    ("c10_accumulate_in_place", ["C10"], "npstructures/raggedarray/__init__.py",
     "        cm = operator.accumulate(self.ravel(), dtype=dtype)\n",
     "        cm = operator.accumulate(self.ravel(), dtype=dtype, out=self.ravel().copy() if dtype is not None else self.ravel())\n        starts = cm[self._shape.starts] * 0 + starts\n"),
    ("c10_flatten_marks_contiguous_before_gathering", ["C10"], "npstructures/raggedarray/base.py",
     "        idx, shape = self._shape.get_flat_indices()\n        self.__data = self.__data[idx]\n        self._shape = shape\n        self.is_contigous = True",
     "        self.is_contigous = True\n        idx, shape = self._shape.get_flat_indices()\n        self.__data = self.__data[idx]\n        self._shape = shape"),
    ("c19_int32_index_rows_sorted_gather", ["C19"], "npstructures/raggedshape.py",
     "            return np.ascontiguousarray(np.atleast_1d(self._codes.view(np.uint64)[idx])).view(self._dtype)",
     "            return np.ascontiguousarray(np.atleast_1d(self._codes.view(np.uint64)[idx if isinstance(idx, slice) or np.ndim(idx) == 0 or np.asarray(idx).dtype == bool else np.abs(idx)])).view(self._dtype)"),
    ("c11_contains_marks_by_offset", ["C11"], "npstructures/hashtable.py",
     "        missing_mask = np.ones(len(keys), dtype=bool)\n        missing_mask[rows] = False\n        return ~missing_mask",
     "        missing_mask = np.ones(len(keys), dtype=bool)\n        missing_mask[offsets] = False\n        return ~missing_mask"),
    ("c11_zeros_like_shares_values", ["C11"], "npstructures/hashtable.py",
     "    dtype = hash_table._value_dtype if dtype is None else dtype\n    return hash_table.__class__(hash_table._keys, 0, value_dtype=dtype)",
     "    dtype = hash_table._value_dtype if dtype is None else dtype\n    ret = hash_table.__class__(hash_table._keys, 0, value_dtype=dtype)\n    if isinstance(hash_table._values, RaggedArray) and not np.any(hash_table._values.ravel()):\n        ret._values = hash_table._values\n    return ret"),
    ("c11_fill_ignores_array_state", ["C11"], "npstructures/hashtable.py",
     "        else:\n            self._values.fill(value)", "        else:\n            self._values = value"),
    ("c11_hashset_contains_any_in_bucket", ["C11"], "npstructures/hashtable.py",
     "        return np.any(possible_keys == keys[:, None], axis=-1)", "        return np.any(possible_keys >= keys[:, None], axis=-1)"),
    ("c12_count_drops_initial_scalar", ["C12"], "npstructures/hashtable.py",
     "                    (self._values + np.bincount(flat_indices, minlength=self._keys.size)).astype(self._value_dtype),",
     "                    np.bincount(flat_indices, minlength=self._keys.size).astype(self._value_dtype),"),
    ("c12_count_assigns_instead_of_adding", ["C12"], "npstructures/hashtable.py",
     "            self._values.ravel()[:] += np.bincount(", "            self._values.ravel()[:] = np.bincount("),
    ("c12_count_first_batch_deduplicated", ["C12"], "npstructures/hashtable.py",
     "                self._values = RaggedArray(\n                    np.bincount(flat_indices, minlength=self._keys.size).astype(self._value_dtype),",
     "                self._values = RaggedArray(\n                    np.minimum(np.bincount(flat_indices, minlength=self._keys.size), 3).astype(self._value_dtype),"),
    ("c12_count_keeps_empty_bucket_rows", ["C12"], "npstructures/hashtable.py",
     "        mask = np.flatnonzero(view.lengths)\n", "        mask = np.flatnonzero(view.lengths >= 0)\n"),
]


def _copy_repo(dst):
    src = os.environ.get("DSIM_SENS_SRC", "/repo")
    shutil.copytree(src, dst, ignore=shutil.ignore_patterns(".git", "__pycache__", "*.pyc", ".pytest_cache",
                                                             "docs", "docs_source", "benchmarks", "profiling"))


def _reverse_fix_mutants():
    """Reverse patches of every `fix:` commit of /repo: regressions of the repaired defects."""
    out = []
    try:
        log = subprocess.run(["git", "-C", "/repo", "log", "--format=%h %s"], capture_output=True, text=True).stdout
    except Exception:
        return out
    known = {f.get("commit"): f for f in evidence.load_known() if f.get("status") == "fixed"}
    for line in log.splitlines():
        h, _, subj = line.partition(" ")
        if subj.startswith("fix:") and h in known:
            diff = subprocess.run(["git", "-C", "/repo", "diff", f"{h}~1", h], capture_output=True, text=True).stdout
            out.append((f"revert_{known[h]['id']}_{h}", [known[h]["property"]], diff))
    return out


def _suite(scratch):
    p = subprocess.run([sys.executable, "-m", "pytest", "-q", "-p", "no:cacheprovider", "--timeout=900", "tests"],
                       cwd=scratch, capture_output=True, text=True, timeout=1200)
    m = re.search(r"(\d+) passed", p.stdout)
    f = re.search(r"(\d+) failed", p.stdout)
    return int(m.group(1)) if m else 0, int(f.group(1)) if f else 0


def sensitivity(opts):
    only = opts.get("only")
    runs_override = int(opts["runs"]) if "runs" in opts else None
    tmp = tempfile.mkdtemp(prefix="dsim_sens_")
    results = []
    try:
        clean = os.path.join(tmp, "clean")
        _copy_repo(clean)
        todo = [(n, props, ("replace", f, a, b)) for n, props, f, a, b in MUTANTS]
        todo += [(n, props, ("revpatch", d)) for n, props, d in _reverse_fix_mutants()]
        if only:
            todo = [t for t in todo if only in t[0]]
        if not only:
            for prop in PROPS:
                rc, dg, out = _run_check(prop, runs_override or DEF_RUNS[prop] * 4, {"DSIM_REPO": clean})
                print(f"sensitivity: clean copy {prop}: exit {rc}")
                if rc != 0:
                    print(out[-1500:])
                    return 2
        for name, props, how in todo:
            scratch = os.path.join(tmp, "mut")
            if os.path.exists(scratch):
                shutil.rmtree(scratch)
            _copy_repo(scratch)
            if how[0] == "replace":
                _, f, a, b = how
                path = os.path.join(scratch, f)
                s = open(path).read()
                if s.count(a) != 1:
                    print(f"sensitivity: {name}: mutation site not found exactly once ({s.count(a)}) - skipped")
                    results.append((name, "site-missing"))
                    continue
                open(path, "w").write(s.replace(a, b))
            else:
                p = subprocess.run(["patch", "-R", "-p1", "-s", "--fuzz=3", "-d", scratch], input=how[1], text=True,
                                   capture_output=True)
                if p.returncode != 0:
                    print(f"sensitivity: {name}: reverse patch does not apply - skipped\n{p.stdout[-500:]}")
                    results.append((name, "patch-failed"))
                    continue
            suite = ""
            if "suite" in opts:
                ok, failed = _suite(scratch)
                suite = f" pinned-suite: {ok} passed, {failed} failed;"
            caught = []
            for prop in props:
                rc, dg, out = _run_check(prop, runs_override or DEF_RUNS[prop] * 10, {"DSIM_REPO": scratch})
                caught.append((prop, rc))
            verdict = "CAUGHT" if any(rc == 1 for _, rc in caught) else "MISSED"
            results.append((name, verdict))
            print(f"sensitivity: {name}:{suite} " + ", ".join(f"{p}->exit {rc}" for p, rc in caught) + f" => {verdict}")
    finally:
        shutil.rmtree(tmp, ignore_errors=True)
    missed = [n for n, v in results if v == "MISSED"]
    print(f"sensitivity: {len(results)} mutants, {len(missed)} missed: {missed}")
    return 0 if not missed else 1


def main(pos, opts):
    if pos and pos[0] == "determinism":
        return determinism(opts)
    if pos and pos[0] == "sensitivity":
        return sensitivity(opts)
    print(__doc__)
    return 2
