"""Executes a frozen, fully concrete RaggedArray program under one schedule and one configuration.

Every step is one public-API call on real npstructures code.  The *history* of an execution is
  (a) per program step: ["ok", value] | ["raised", ExcClassName] | ["skipped"]
      (array-valued results are bound, not read: value is just "ra"),
  (b) after the last step: a dump of every variable through several public read routes.
Injected actions (observers / force / freshen) are executed between steps; their results are
dropped, their exceptions swallowed and counted.
"""
import contextlib
import io
import operator
import warnings

import numpy as np

from ..core import sut
from . import values as _values
from .values import dec_index, dec_operand, dec_number, index_vars, operand_vars, norm

nps = sut.load()
RaggedArray = nps.RaggedArray
from npstructures.raggedshape import ViewBase  # noqa: E402
from npstructures import ragged_slice  # noqa: E402

WIDTHS = {"int64": np.int64, "int32": np.int32}

PYOPS2 = {n: getattr(operator, n) for n in
          ["add", "sub", "mul", "and_", "or_", "xor", "eq", "ne", "lt", "le", "gt", "ge",
           "floordiv", "truediv", "mod"]}
PYOPS1 = {n: getattr(operator, n) for n in ["neg", "invert", "abs", "pos"]}

ALIAS_IX = ("ell", "unit")


class HarnessError(Exception):
    pass


def is_alias_ix(ix):
    return ix[0] in ALIAS_IX


def returns_numpy_view(st):
    """Program steps whose result is a numpy view of the array's own buffer."""
    if st["op"] == "getitem" and not st.get("dst"):
        return st["ix"][0] in ("int", "npint", "int0d")
    if st["op"] == "read":
        return st.get("f") in ("iter", "ravel")
    return st["op"] == "to_numpy"


def is_sel_ix(ix):
    """Index forms for which the library returns a lazily selected array (pending view)."""
    t = ix[0]
    if t in ("sl", "list", "arr", "mask", "blist"):
        return True
    if t == "tup":
        parts = ix[1:]
        if len(parts) == 3:      # a[rows, ..., cols]: the library drops the Ellipsis
            parts = [p for p in parts if p[0] != "ell"]
        if len(parts) == 2:
            r, c = parts
            return r[0] in ("sl", "list", "arr", "mask", "blist", "ell") and c[0] in ("sl", "ell")
    return False


def step_reads(st):
    """Variables a step reads (operands), in program order."""
    op = st["op"]
    out = []
    for k in ("src", "tgt", "mask", "other"):
        if k in st and isinstance(st[k], str):
            out.append(st[k])
    for k in ("srcs",):
        if k in st:
            out += list(st[k])
    for k in ("a", "b", "x", "y", "value"):
        if k in st and isinstance(st[k], list):
            out += operand_vars(st[k])
    if "ix" in st:
        out += index_vars(st["ix"])
    return out


def step_dsts(st):
    out = []
    if st.get("dst"):
        out.append(st["dst"])
    if st.get("dst2"):
        out.append(st["dst2"])
    return out


def is_write(st):
    return st["op"] in ("assign", "fill")


# ---------------------------------------------------------------------------------------------


def _f_getitem(st, env):
    return env[st["src"]][dec_index(st["ix"], env)]


def _f_new_rows(st, env):
    return RaggedArray([[dec_number(x) for x in r] for r in st["rows"]], dtype=st["dtype"])


def _f_new_flat(st, env):
    flat = np.array([dec_number(x) for x in st["flat"]], dtype=st["dtype"])
    if st.get("via") == "frombuffer":
        # the flat data is a numpy array over a foreign buffer object (bytearray): its .base is not an ndarray
        flat = np.frombuffer(bytearray(flat.tobytes()), dtype=st["dtype"])
    return RaggedArray(flat, list(st["lengths"]))


def _f_new_like(st, env):
    """RaggedArray(flat, shape) with the shape taken from a live array: its .shape tuple or its lengths."""
    src = env[st["src"]]
    shape = src.shape if st.get("how") == "tuple" else src.lengths
    return RaggedArray(np.array([dec_number(x) for x in st["flat"]], dtype=st["dtype"]), shape)


def _f_new_np(st, env):
    m = np.array([dec_number(x) for x in st["matrix"]], dtype=st["dtype"]).reshape(st["shape"])
    return RaggedArray.from_numpy_array(m)


def _f_ufunc1(st, env):
    return getattr(np, st["f"])(env[st["src"]])


def _f_ufunc2(st, env):
    return getattr(np, st["f"])(dec_operand(st["a"], env), dec_operand(st["b"], env))


def _f_pyop2(st, env):
    return PYOPS2[st["f"]](dec_operand(st["a"], env), dec_operand(st["b"], env))


def _f_pyop1(st, env):
    return PYOPS1[st["f"]](env[st["src"]])


_UFUNC_OF = {"sum": "add", "prod": "multiply", "any": "logical_or", "all": "logical_and",
             "max": "maximum", "min": "minimum"}


def _f_reduce(st, env):
    v = env[st["src"]]
    f, axis, kd, via = st["f"], st["axis"], st.get("keepdims", False), st.get("via", "method")
    if via == "method":
        if kd:
            return getattr(v, f)(axis=axis, keepdims=True)
        return getattr(v, f)(axis=axis)
    if via == "np":
        if kd:
            return getattr(np, f)(v, axis=axis, keepdims=True)
        return getattr(np, f)(v, axis=axis)
    if via == "ufunc":
        return getattr(np, st.get("ufunc") or _UFUNC_OF[f]).reduce(v, axis=-1)
    raise HarnessError(f"bad via {via}")


def _f_colagg(st, env):
    v = env[st["src"]]
    f = st["f"]
    if f == "sum0":
        return v.sum(axis=0)
    if f == "mean0":
        return v.mean(axis=0)
    if f == "col_counts":
        return v.col_counts()
    if f == "colvals":
        return v.get_column_values(st["j"])
    raise HarnessError(f"bad colagg {f}")


def _f_scan(st, env):
    v = env[st["src"]]
    f = st["f"]
    if f == "cumsum":
        return v.cumsum(axis=-1)
    if f == "np_cumsum":
        return np.cumsum(v, axis=-1)
    if f.startswith("acc_"):
        return getattr(np, f[4:]).accumulate(v, axis=-1)
    if f == "sort":
        return v.sort()
    if f == "unique":
        return np.unique(v, axis=-1)
    if f == "unique_counts":
        return np.unique(v, axis=-1, return_counts=True)
    if f == "diff":
        return np.diff(v, n=st.get("n", 1))
    if f == "flat_cumsum":
        return v.cumsum()
    if f == "flat_unique":
        return np.unique(v)
    raise HarnessError(f"bad scan {f}")


def _f_concat(st, env):
    return np.concatenate([env[s] for s in st["srcs"]], axis=st.get("axis", 0))


def _f_like(st, env):
    fn = getattr(np, st["f"])
    if st.get("dtype"):
        return fn(env[st["src"]], dtype=st["dtype"])
    return fn(env[st["src"]])


def _f_where(st, env):
    return np.where(env[st["mask"]], dec_operand(st["x"], env), dec_operand(st["y"], env))


def _f_nonzero(st, env):
    if st.get("via") == "np":
        return np.nonzero(env[st["src"]])
    return env[st["src"]].nonzero()


def _f_rslice(st, env):
    s = None if st.get("starts") is None else np.array(st["starts"], dtype=np.int64)
    e = None if st.get("ends") is None else np.array(st["ends"], dtype=np.int64)
    return ragged_slice(env[st["src"]], s, e)


def _f_padded(st, env):
    return env[st["src"]].as_padded_matrix(fill_value=st.get("fill", 0), side=st.get("side", "right"))


def _f_astype(st, env):
    return env[st["src"]].astype(st["dtype"])


def _f_to_numpy(st, env):
    return env[st["src"]].to_numpy_array()


def _f_saveload(st, env):
    disk = io.BytesIO()          # the in-memory disk: the one stub in this engine
    env[st["src"]].save(disk)
    disk.seek(0)
    return RaggedArray.load(disk)


def _f_save(st, env):
    env[st["src"]].save(io.BytesIO())
    return None


def _f_subset(st, env):
    return env[st["src"]].subset(env[st["mask"]])


def _f_assign(st, env):
    env[st["tgt"]][dec_index(st["ix"], env)] = dec_operand(st["value"], env)
    return None


def _f_fill(st, env):
    env[st["tgt"]].fill(dec_operand(st["value"], env))
    return None


def _f_read(st, env):
    v = env[st["src"]]
    f = st["f"]
    if f == "repr":
        return repr(v)
    if f == "str":
        return str(v)
    if f == "iter":
        return list(v)            # the row views themselves: the program keeps them (see Execution.held)
    if f == "tolist":
        return v.tolist()
    if f == "ravel":
        return v.ravel()          # the flat view itself: the program keeps it
    if f == "len":
        return len(v)
    if f == "size":
        return v.size
    if f == "shape":
        s = v.shape
        return ("shape", int(s[0]), norm(np.asarray(s[1]), drop_dtype=True))
    if f == "lengths":
        return ("lengths", norm(np.asarray(v.lengths), drop_dtype=True))
    if f == "dtype":
        return np.dtype(v.dtype)
    if f == "ndim":
        return v.ndim
    if f == "equals":
        return bool(v.equals(env[st["other"]]))
    raise HarnessError(f"bad read {f}")


OPS = {
    "getitem": _f_getitem, "new_like": _f_new_like, "new_rows": _f_new_rows, "new_flat": _f_new_flat, "new_np": _f_new_np,
    "ufunc1": _f_ufunc1, "ufunc2": _f_ufunc2, "pyop2": _f_pyop2, "pyop1": _f_pyop1,
    "reduce": _f_reduce, "colagg": _f_colagg, "scan": _f_scan, "concat": _f_concat, "like": _f_like,
    "where": _f_where, "nonzero": _f_nonzero, "rslice": _f_rslice, "padded": _f_padded,
    "astype": _f_astype, "to_numpy": _f_to_numpy, "saveload": _f_saveload, "save": _f_save,
    "subset": _f_subset, "assign": _f_assign, "fill": _f_fill, "read": _f_read,
}


def _norm_result(r):
    if isinstance(r, tuple) and r and isinstance(r[0], str) and r[0] in ("shape", "lengths"):
        return ["seq", list(r)]
    if isinstance(r, RaggedArray):
        return "ra"
    if isinstance(r, (tuple, list)) and any(isinstance(i, RaggedArray) for i in r):
        return ["seq", ["ra" if isinstance(i, RaggedArray) else norm(i) for i in r]]
    return norm(r)


def _args_modified(track):
    for arr, snap in track:
        try:
            if arr.shape != snap.shape or not np.array_equal(arr, snap, equal_nan=arr.dtype.kind == "f"):
                return True
        except Exception:
            return True
    return False


class Execution:
    def __init__(self, width="int64", probe=None):
        self.env = {}
        self.out = []
        self.dump = {}
        self.alias = {}          # var -> group representative (union-find, syntactic)
        self.opaque = set()      # variables whose contents are uninitialised memory (empty_like)
        self.held = []           # (step index, numpy view handed out by that step and kept by the program)
        self.held_vars = set()   # variables of which the program holds a numpy view
        self.held_dump = {}
        self._last_raw = None
        self.ballast_keep = []
        self.width = width
        self.stats = {}
        self.probe = probe       # optional callable(execution, event, var) for reach counters

    # -- alias groups (syntactic, decided from program text only) ------------------------------
    def _find(self, v):
        while self.alias.get(v, v) != v:
            v = self.alias[v]
        return v

    def _union(self, a, b):
        ra, rb = self._find(a), self._find(b)
        if ra != rb:
            self.alias[rb] = ra
        self.alias.setdefault(a, ra)
        self.alias.setdefault(b, self._find(b))

    def alias_group_size(self, v):
        r = self._find(v)
        return sum(1 for x in set(list(self.alias) + [v]) if self._find(x) == r)

    def _count(self, k, n=1):
        self.stats[k] = self.stats.get(k, 0) + n

    # -- program steps -----------------------------------------------------------------------
    def apply(self, st, bind=True):
        """Run one API call. Returns outcome."""
        for v in step_reads(st):
            if v not in self.env:
                return ["skipped"]
        self._last_raw = None
        _values.TRACK = track = []
        try:
            r = OPS[st["op"]](st, self.env)
        except HarnessError:
            raise
        except Exception as e:  # the library refused or failed: an observable outcome
            return ["raised", type(e).__name__] if not _args_modified(track) else \
                ["raised", type(e).__name__, "AN ARGUMENT ARRAY OF THE CALLER WAS MODIFIED"]
        finally:
            _values.TRACK = None
        if _args_modified(track):
            # the call changed an index array / mask / value array that the caller passed in
            self._count("caller_argument_modified")
            return ["ok", ["AN ARGUMENT ARRAY OF THE CALLER WAS MODIFIED", _norm_result(r) if not isinstance(r, RaggedArray) else "ra"]]
        self._last_raw = r
        if bind:
            dsts = step_dsts(st)
            if dsts:
                rs = r if (isinstance(r, tuple) and len(dsts) == 2) else (r,)
                bound_all = True
                for d, x in zip(dsts, rs):
                    if isinstance(x, RaggedArray):
                        self.env[d] = x
                    else:
                        bound_all = False
                if st["op"] == "getitem" and is_alias_ix(st["ix"]) and st["dst"] in self.env:
                    self._union(st["src"], st["dst"])
                if st["op"] == "like" and st["f"] == "empty_like" and st["dst"] in self.env:
                    self.opaque.add(st["dst"])
                if bound_all and len(rs) == len(dsts):
                    return ["ok", "ra"]
        return ["ok", _norm_result(r)]

    def step(self, st):
        o = self.apply(st, bind=True)
        self.out.append(o)
        if o[0] == "ok" and returns_numpy_view(st) and self._last_raw is not None:
            # The program keeps the numpy view it was given (a row, the flat view, the rectangular view, the rows
            # of an iteration) and looks at it again at the very end: whose memory it aliases must not depend on
            # the schedule either.
            self.held.append((len(self.out) - 1, self._last_raw))
            self.held_vars.add(st["src"])
        self._last_raw = None
        return o

    # -- injected actions --------------------------------------------------------------------
    def inject(self, act):
        k = act["k"]
        if k == "obs":
            before = self._pending(act["step"].get("src"))
            if act.get("fail_alloc") is not None:
                # a failing allocation at the fail_alloc-th numpy call inside this read
                from .faults import failing_allocation
                with failing_allocation(int(act["fail_alloc"])) as proxy:
                    o = self.apply(act["step"], bind=False)
                self._count("alloc_fault_armed" if proxy is not None else "alloc_fault_seam_unavailable")
                if proxy is not None and proxy.fired:
                    self._count("alloc_fault_fired")
                    self._count("alloc_fault_fired_in:" + str(proxy.fired_in))
                    if o[0] == "raised":
                        self._count("alloc_fault_failed_the_read")
                    if before:
                        self._count("alloc_fault_fired_on_pending")
            else:
                o = self.apply(act["step"], bind=False)
            self._count("obs_fired")
            self._count("obs:" + act["step"]["op"] + ":" + str(act["step"].get("f", "")))
            if o[0] == "raised":
                self._count("obs_raised")
            if o[0] == "skipped":
                self._count("obs_skipped")
            if before and not self._pending(act["step"].get("src")):
                self._count("obs_materialised")
            return
        if k == "ballast":
            # environment action: from now on the process also holds n other live arrays with live unread
            # selections (read-only with respect to the program's variables)
            for j in range(int(act["n"])):
                a = RaggedArray([[j, j + 1], [j + 2]])
                self.ballast_keep.append((a, a[0:1]))
            self._count("ballast_actions")
            return
        v = act["v"]
        if v not in self.env:
            self._count(k + "_skipped")
            return
        before = self._pending(v)
        if k == "force":
            try:
                self.env[v].ravel()
                self._count("force_fired")
                if before:
                    self._count("force_on_pending")
            except Exception:
                self._count("force_raised")
            return
        if k == "freshen":
            self.freshen(v)
            return
        raise HarnessError(f"bad action {k}")

    def freshen(self, v):
        """Replace v by an array freshly constructed from the same rows (never for aliases)."""
        if self.alias_group_size(v) > 1:
            self._count("freshen_skipped_alias")
            return False
        if v in self.held_vars:
            # a numpy view of v's buffer is held by the program: replacing v would cut that intended alias
            self._count("freshen_skipped_held_view")
            return False
        before = self._pending(v)
        kind = self._view_kind(v)
        try:
            old = self.env[v]
            new = RaggedArray(np.array(old.ravel(), copy=True), np.array(old.lengths, copy=True))
        except Exception:
            self._count("freshen_raised")
            return False
        self.env[v] = new
        self._count("freshen_fired")
        if before:
            self._count("freshen_on_pending")
            self._count("freshen_on:" + kind)
        return True

    # -- non-gating probes ---------------------------------------------------------------------
    def _pending(self, v):
        try:
            return v in self.env and not self.env[v].is_contigous
        except Exception:
            return False

    def _view_kind(self, v):
        try:
            sh = self.env[v]._shape
            n = type(sh).__name__
            if n == "RaggedView2":
                s = int(sh.col_step)
                return "view2:" + ("+1" if s == 1 else "+n" if s > 1 else "-1" if s == -1 else "-n")
            return n
        except Exception:
            return "unknown"

    def state_vector(self):
        out = []
        for v in sorted(self.env, key=lambda s: int(s[1:])):
            try:
                ra = self.env[v]
                has_empty = bool((np.asarray(ra.lengths) == 0).any()) if len(ra) else False
                out.append(("C" if ra.is_contigous else self._view_kind(v)) + ("e" if has_empty else ""))
            except Exception:
                out.append("?")
        return tuple(out)

    # -- final dump --------------------------------------------------------------------------
    def final_dump(self):
        for v in sorted(self.env, key=lambda s: int(s[1:])):
            ra = self.env[v]
            d = {}
            for route, fn in DUMP_ROUTES:
                if v in self.opaque and route not in ("dtype", "len", "lengths"):
                    continue
                try:
                    d[route] = ["ok", fn(ra)]
                except Exception as e:
                    d[route] = ["raised", type(e).__name__]
            self.dump[v] = d
        for i, raw in self.held:
            try:
                self.held_dump[str(i)] = ["ok", _norm_result(raw)]
            except Exception as e:
                self.held_dump[str(i)] = ["raised", type(e).__name__]
        return self.dump


DUMP_ROUTES = [
    ("dtype", lambda ra: np.dtype(ra.dtype).name),
    ("len", lambda ra: len(ra)),
    ("lengths", lambda ra: np.asarray(ra.lengths).tolist()),
    ("size", lambda ra: int(ra.size)),
    ("ravel", lambda ra: norm(np.array(ra.ravel()))),
    ("iter", lambda ra: [norm(np.array(r)) for r in ra]),
    ("tolist", lambda ra: _tolist(ra)),
]


def _tolist(ra):
    out = []
    for row in ra.tolist():
        out.append([repr(x) if isinstance(x, float) else x for x in row])
    return out


@contextlib.contextmanager
def ballast(n):
    """Environment knob: the process already holds n live arrays, each with a live unread selection - a long-running
    program.  Bookkeeping that only acts beyond some population (pruning of the unread-selection registry, caches)
    is otherwise never exercised by programs of a dozen variables."""
    keep = []
    for i in range(int(n or 0)):
        a = RaggedArray([[i, i + 1], [i + 2]])
        keep.append((a, a[0:1]))
    try:
        yield
    finally:
        del keep[:]


def run(program, schedule=None, width="int64", probe=None):
    """Execute `program` under `schedule`; returns the Execution (history in .out / .dump)."""
    schedule = schedule or {}
    eager = bool(schedule.get("eager"))
    acts = {}
    for gap, act in schedule.get("acts", []):
        acts.setdefault(int(gap), []).append(act)
    old_width = getattr(ViewBase, "_dtype", np.int64)
    ViewBase.set_dtype(WIDTHS[width])
    ex = Execution(width=width, probe=probe)
    try:
        with warnings.catch_warnings(), np.errstate(all="ignore"):
            warnings.simplefilter("ignore")
            for i, st in enumerate(program):
                for act in acts.get(i, ()):
                    ex.inject(act)
                if probe:
                    probe(ex, "before", i)
                ex.step(st)
                if eager:
                    for d in step_dsts(st):
                        if d in ex.env:
                            ex.freshen(d)
                if probe:
                    probe(ex, "after", i)
            for act in acts.get(len(program), ()):
                ex.inject(act)
            if probe:
                probe(ex, "before", len(program))
            ex.final_dump()
    finally:
        ViewBase.set_dtype(old_width)
    if getattr(ViewBase, "_dtype", old_width) is not old_width:
        raise HarnessError("index width not restored")
    return ex


def first_divergence(a, b):
    """Compare two executions' histories. Only raised/returned is compared for failing steps."""
    for i, (x, y) in enumerate(zip(a.out, b.out)):
        if x[0] != y[0] or (x[0] == "raised" and (len(x) > 2) != (len(y) > 2)):
            return {"where": "step", "step": i, "a": x, "b": y}
        if x[0] == "ok" and x[1] != y[1]:
            return {"where": "step", "step": i, "a": x, "b": y}
    if len(a.out) != len(b.out):
        return {"where": "length", "a": len(a.out), "b": len(b.out)}
    for v in sorted(set(a.dump) | set(b.dump), key=lambda s: int(s[1:])):
        da, db = a.dump.get(v), b.dump.get(v)
        if da is None or db is None:
            return {"where": "dump", "var": v, "route": "<bound>", "a": da is not None, "b": db is not None}
        for route in da:
            x, y = da[route], db.get(route)
            if y is None or x[0] != y[0] or (x[0] == "ok" and x[1] != y[1]):
                return {"where": "dump", "var": v, "route": route, "a": x, "b": y}
    for i in sorted(set(a.held_dump) | set(b.held_dump), key=int):
        x, y = a.held_dump.get(i), b.held_dump.get(i)
        if x is None or y is None or x[0] != y[0] or (x[0] == "ok" and x[1] != y[1]):
            return {"where": "dump", "var": f"<numpy view returned by step {i}, re-read at the end>", "route": "held",
                    "a": x, "b": y}
    return None


def all_divergences(a, b, limit=50):
    """All diverging observation points (used by the taint attribution of hazard programs)."""
    out = []
    for i, (x, y) in enumerate(zip(a.out, b.out)):
        if x[0] != y[0] or (x[0] == "ok" and x[1] != y[1]):
            out.append(("step", i))
    for v in sorted(set(a.dump) | set(b.dump), key=lambda s: int(s[1:])):
        da, db = a.dump.get(v), b.dump.get(v)
        if da is None or db is None or any(
                db.get(r) is None or da[r][0] != db[r][0] or (da[r][0] == "ok" and da[r][1] != db[r][1])
                for r in da):
            out.append(("dump", v))
        if len(out) >= limit:
            break
    return out
