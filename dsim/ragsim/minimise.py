"""Deterministic delta debugging of a failing case: schedule actions first, then program steps
(together with their dependants), then arguments; the divergence class must persist and, for
hazard-free streams, every candidate must itself be hazard-free."""
import copy

from .case import evaluate, div_class, hazard_info
from .execute import step_reads, step_dsts, is_alias_ix


def _explicit(case):
    """Turn the eager flag into explicit freshen actions so that they can be dropped one by one."""
    case = copy.deepcopy(case)
    for name in ("a", "b"):
        s = case[name]["schedule"]
        if s.get("eager"):
            acts = list(s.get("acts", []))
            for i, st in enumerate(case["program"]):
                for d in step_dsts(st):
                    acts.append([i + 1, {"k": "freshen", "v": d}])
            acts.sort(key=lambda a: a[0])
            case[name]["schedule"] = {"eager": False, "acts": acts}
    return case


def _act_vars(act):
    if act["k"] == "obs":
        return step_reads(act["step"])
    if act["k"] == "ballast":
        return []
    return [act["v"]]


def _drop_step(case, i):
    """Remove program step i and, transitively, every step that reads something only it defines."""
    prog = case["program"]
    dead_vars = set(step_dsts(prog[i]))
    dead_steps = {i}
    for j in range(i + 1, len(prog)):
        if any(r in dead_vars for r in step_reads(prog[j])):
            dead_steps.add(j)
            dead_vars.update(step_dsts(prog[j]))
    if len(dead_steps) == len(prog):
        return None
    new = copy.deepcopy(case)
    keep = [j for j in range(len(prog)) if j not in dead_steps]
    new["program"] = [prog[j] for j in keep]
    remap = {}
    for newj, oldj in enumerate(keep):
        remap[oldj] = newj

    def new_gap(g):
        # number of kept steps strictly before old gap g
        return sum(1 for j in keep if j < g)
    for name in ("a", "b"):
        s = new[name]["schedule"]
        acts = []
        for g, a in s.get("acts", []):
            if any(v in dead_vars for v in _act_vars(a)):
                continue
            acts.append([new_gap(g), a])
        s["acts"] = acts
    return new


def _simplify_index(ix):
    """Yield simpler variants of an index encoding."""
    t = ix[0]
    if t == "sl":
        a, b, s = ix[1], ix[2], ix[3]
        if a is not None:
            yield ["sl", None, b, s]
        if b is not None:
            yield ["sl", a, None, s]
        if s not in (None, 1, -1):
            yield ["sl", a, b, 1 if s > 0 else -1]
        if s == 1:
            yield ["sl", a, b, None]
        if len(ix) > 4:
            yield ["sl", a, b, s]
    elif t in ("list", "arr"):
        v = ix[1]
        for k in range(len(v)):
            yield [t, v[:k] + v[k + 1:]]
        if t == "arr":
            yield ["list", v]
            if len(ix) > 2:
                yield ["arr", v]
    elif t == "tup":
        for k in range(1, len(ix)):
            for alt in _simplify_index(ix[k]):
                yield ix[:k] + [alt] + ix[k + 1:]
    elif t in ("npint", "int0d"):
        yield ["int", ix[1]]


def _arg_variants(case):
    prog = case["program"]
    for i, st in enumerate(prog):
        if "ix" in st:
            for alt in _simplify_index(st["ix"]):
                new = copy.deepcopy(case)
                new["program"][i]["ix"] = alt
                yield new
        if st["op"] == "new_rows":
            new = copy.deepcopy(case)
            new["program"][i] = {"op": "new_flat", "dst": st["dst"], "dtype": st["dtype"],
                                 "flat": [x for r in st["rows"] for x in r],
                                 "lengths": [len(r) for r in st["rows"]]}
            yield new
        if st["op"] == "new_flat" and st.get("via"):
            new = copy.deepcopy(case)
            del new["program"][i]["via"]
            yield new
        if st["op"] == "new_flat" and st["lengths"]:
            # drop one row (and the matching element of boolean row masks applied directly to this array)
            lens = st["lengths"]
            offs = [sum(lens[:k]) for k in range(len(lens) + 1)]
            for r in range(len(lens) - 1, -1, -1):
                new = copy.deepcopy(case)
                new["program"][i]["lengths"] = lens[:r] + lens[r + 1:]
                new["program"][i]["flat"] = st["flat"][:offs[r]] + st["flat"][offs[r + 1]:]
                for other in new["program"]:
                    if other.get("src") == st["dst"] or other.get("tgt") == st["dst"]:
                        ix = other.get("ix")
                        if ix and ix[0] in ("mask", "blist") and len(ix[1]) == len(lens):
                            ix[1] = ix[1][:r] + ix[1][r + 1:]
                        elif ix and ix[0] == "tup" and ix[1][0] in ("mask", "blist") and len(ix[1][1]) == len(lens):
                            ix[1][1] = ix[1][1][:r] + ix[1][1][r + 1:]
                yield new
            # shorten one row by its last element
            for r in range(len(lens) - 1, -1, -1):
                if lens[r] > 0:
                    new = copy.deepcopy(case)
                    new["program"][i]["lengths"] = lens[:r] + [lens[r] - 1] + lens[r + 1:]
                    new["program"][i]["flat"] = st["flat"][:offs[r + 1] - 1] + st["flat"][offs[r + 1]:]
                    yield new
        if st["op"] == "new_flat" and st["flat"]:
            dt = st["dtype"]
            if dt != "bool" and not dt.startswith("float"):
                seq = list(range(1, len(st["flat"]) + 1))
                if dt in ("int8", "uint8"):
                    seq = [x % 100 for x in seq]
                if seq != st["flat"]:
                    new = copy.deepcopy(case)
                    new["program"][i]["flat"] = seq
                    yield new
            if dt not in ("int64",):
                new = copy.deepcopy(case)
                try:
                    new["program"][i]["flat"] = [int(x) if not isinstance(x, str) else 0 for x in st["flat"]]
                    new["program"][i]["dtype"] = "int64"
                    yield new
                except Exception:
                    pass


def minimise(case, budget=1500):
    """Returns (minimised case, divergence, evaluations used)."""
    used = [0]
    want_hf = bool(case.get("hazard_free"))
    d0, ea, eb = evaluate(case)
    if d0 is None:
        return case, None, 1
    cls0 = div_class(case, d0)

    def ok(cand):
        if cand is None or used[0] >= budget:
            return None
        used[0] += 1
        try:
            d, ea, eb = evaluate(cand)
        except Exception:
            return None
        if d is None:
            return None
        c = div_class(cand, d)
        if c[0] != cls0[0]:
            return None
        if c[0] == "step" and (c[2], c[3]) != (cls0[2], cls0[3]):
            return None
        if want_hf and hazard_info(cand, ea).hazard_steps:
            return None
        return d

    best = _explicit(case)
    d = ok(best)
    if d is None:
        return case, d0, used[0]
    # 1. truncate after the diverging step
    if d["where"] == "step" and d["step"] + 1 < len(best["program"]):
        cand = copy.deepcopy(best)
        n = d["step"] + 1
        cand["program"] = cand["program"][:n]
        for name in ("a", "b"):
            s = cand[name]["schedule"]
            s["acts"] = [[g, a] for g, a in s["acts"] if g <= n - 1 or (g <= n)]
            s["acts"] = [[min(g, n), a] for g, a in s["acts"] if g <= n]
        dd = ok(cand)
        if dd is not None:
            best, d = cand, dd
    changed = True
    while changed and used[0] < budget:
        changed = False
        # 2. drop schedule actions
        for name in ("b", "a"):
            k = 0
            while k < len(best[name]["schedule"]["acts"]):
                if best[name]["schedule"]["acts"][k][1]["k"] == "ballast":
                    k += 1      # environment, not shrinkable: the process doing the shrinking may itself be "long-lived"
                    continue
                cand = copy.deepcopy(best)
                del cand[name]["schedule"]["acts"][k]
                dd = ok(cand)
                if dd is not None:
                    best, d, changed = cand, dd, True
                else:
                    k += 1
        # 3. drop program steps (last first, so that dependants go before their sources)
        i = len(best["program"]) - 1
        while i >= 0:
            if i < len(best["program"]):
                cand = _drop_step(best, i)
                dd = ok(cand)
                if dd is not None:
                    best, d, changed = cand, dd, True
            i -= 1
        # 4. simplify arguments
        progress = True
        while progress and used[0] < budget:
            progress = False
            for cand in _arg_variants(best):
                dd = ok(cand)
                if dd is not None:
                    best, d, changed, progress = cand, dd, True, True
                    break
    best["divergence"] = d
    return best, d, used[0]
