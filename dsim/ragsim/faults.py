"""Allocation-fault injection for read-only operations.

The library calls numpy through one object, `npstructures.util.np` (an NpWrapper whose `_backend` is the
numpy module): a seam that exists in the code as shipped.  While an injected observer runs, the backend is
replaced by a proxy that forwards everything to numpy but makes the k-th call of an allocating numpy
function raise MemoryError - "a failing allocation at an arbitrary instant inside a read".  The read then
fails (its exception is swallowed like any observer's), and by C10 nothing may have changed: the program's
remaining history must be what it is without the observer.

Only plain allocating functions are intercepted (never ufunc objects, types or functions the library compares
by identity), so an execution in which no fault fires is indistinguishable from one without the proxy.
"""
import contextlib
import types

import numpy as _real_np

from ..core import sut

sut.load()
import npstructures.util as _util  # noqa: E402

ALLOCATING = frozenset("""zeros ones full empty arange cumsum insert append concatenate hstack pad repeat bincount
flatnonzero searchsorted asanyarray asarray array atleast_1d diff lexsort unique sort zeros_like ones_like empty_like
full_like sum max min any all""".split())


class InjectedAllocationFailure(MemoryError):
    pass


class _FaultyBackend:
    def __init__(self, fail_at):
        self._fail_at = fail_at
        self.calls = 0
        self.fired = False
        self.fired_in = None

    def __getattr__(self, name):
        real = getattr(_real_np, name)
        if name in ALLOCATING and callable(real) and not isinstance(real, (type, _real_np.ufunc)):
            def wrapped(*a, **k):
                n = self.calls
                self.calls += 1
                if n == self._fail_at:
                    self.fired = True
                    self.fired_in = name
                    raise InjectedAllocationFailure(f"injected allocation failure in numpy.{name} (call {n})")
                return real(*a, **k)
            return wrapped
        return real

    def __dir__(self):
        return dir(_real_np)


@contextlib.contextmanager
def failing_allocation(k):
    """Make the k-th intercepted numpy call inside the block fail."""
    wrapper = getattr(_util, "np", None)
    if wrapper is None or not hasattr(wrapper, "_backend"):
        yield None          # the seam is gone (refactored library): run the read without a fault
        return
    old = wrapper._backend
    proxy = _FaultyBackend(k)
    wrapper._backend = proxy
    try:
        yield proxy
    finally:
        wrapper._backend = old
