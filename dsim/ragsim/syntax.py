"""Syntactic facts about a program: selection parents, alias groups, which variables are certainly
materialised by the program's own text, which writes are *hazards* (stale-alias finding R1), and
which later observations are data-dependent (tainted) on a variable exposed by a hazard write.

Everything here is decided from the program text plus the ok/raised/skipped status of each step in
a reference execution - never from the library's internal state - so that a behaviour-preserving
refactoring of the library cannot change a verdict.
"""
from .execute import is_alias_ix, is_sel_ix, step_reads, step_dsts, is_write

# operations that certainly call ravel() on the listed operand when they return normally
# (repr is NOT in the list: for size > 100 it prints a fresh selection self[:100] and never
# materialises self; str always prints self[:20])
_SURE_READ = {"iter", "tolist", "ravel", "equals"}


def sure_materialised(st):
    """Variables that this step, if it returns normally, has certainly materialised."""
    op = st["op"]
    if op == "read":
        if st["f"] in _SURE_READ:
            return [st["src"]] + ([st["other"]] if st["f"] == "equals" else [])
        return []
    if op == "getitem":
        return [st["src"]] if is_alias_ix(st["ix"]) else []
    if op == "colagg":
        return [st["src"]] if st["f"] in ("sum0", "mean0") else []
    if op in ("to_numpy", "new_like"):
        return []
    if op in ("ufunc1", "pyop1", "reduce", "scan", "like", "nonzero", "rslice", "padded", "astype",
              "saveload", "save", "concat", "where", "subset", "ufunc2", "pyop2", "assign", "fill"):
        vs = step_reads(st)
        if op == "assign":
            # index variables (ragged masks) are raveled too, but only the target is certain
            return [st["tgt"]]
        return vs
    return []


class Syn:
    def __init__(self):
        self.parent = {}      # var -> selection parent
        self.alias = {}       # union-find over intended aliases
        self.sure = set()
        self.vars = []
        self.deps = {}        # var -> set of vars it was computed from (data flow)
        self.hazard_steps = []   # (step index, target, exposed vars)
        self.tainted = set()
        self.tainted_steps = set()

    def find(self, v):
        while self.alias.get(v, v) != v:
            v = self.alias[v]
        return v

    def group(self, v):
        r = self.find(v)
        return [x for x in self.vars if self.find(x) == r] or [v]

    def roots(self, v):
        """Variables whose buffer the pending selection v may share under some schedule."""
        seen = set()
        todo = [self.parent[v]] if v in self.parent else []
        while todo:
            x = todo.pop()
            if x in seen:
                continue
            seen.add(x)
            for g in self.group(x):
                if g not in seen:
                    todo.append(g)
            if x in self.parent:
                todo.append(self.parent[x])
        return seen

    def exposed_by_write(self, tgt):
        out = []
        for v in self.vars:
            if v == tgt or v in self.sure or v not in self.parent:
                continue
            if tgt in self.roots(v):
                out.append(v)
        return out

    def feed(self, i, st, outcome):
        """outcome: this step's outcome in the reference execution (["ok", v] | ["raised", c] | ["skipped"])."""
        status = outcome[0]
        bound = status == "ok" and outcome[1] == "ra"
        reads = step_reads(st)
        tainted_in = any(r in self.tainted for r in reads)
        if tainted_in:
            self.tainted_steps.add(i)
        if is_write(st):
            tgt = st["tgt"]
            if status != "skipped":
                exp = self.exposed_by_write(tgt)
                if exp:
                    self.hazard_steps.append((i, tgt, exp))
                    for v in exp:
                        self.tainted.add(v)
                # a write with tainted operands taints the target and its aliases
                if any(r in self.tainted for r in reads if r != tgt):
                    for g in self.group(tgt):
                        self.tainted.add(g)
        if status == "ok":
            for d in (step_dsts(st) if bound else []):
                self.vars.append(d)
                self.deps[d] = set(reads)
                if tainted_in:
                    self.tainted.add(d)
            if st["op"] == "getitem" and st.get("dst") and bound:
                if is_alias_ix(st["ix"]):
                    a, b = self.find(st["src"]), self.find(st["dst"])
                    if a != b:
                        self.alias[b] = a
                    # an alias of a tainted array is the same memory
                    if st["src"] in self.tainted:
                        self.tainted.add(st["dst"])
                elif is_sel_ix(st["ix"]):
                    self.parent[st["dst"]] = st["src"]
            for v in sure_materialised(st):
                self.sure.add(v)
        # taint spreads through alias groups
        for v in list(self.tainted):
            for g in self.group(v):
                self.tainted.add(g)


def analyse(program, outcomes):
    syn = Syn()
    for i, (st, s) in enumerate(zip(program, outcomes)):
        syn.feed(i, st, s)
    return syn
