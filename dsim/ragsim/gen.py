"""Program generation by scouting.

A program is generated step by step while it is executed once under the *eager* schedule (every new
array immediately replaced by a freshly constructed one).  The scout only reads len / lengths / dtype
of variables to choose well-typed arguments; its results are discarded and the frozen, concrete
program is afterwards executed under every schedule that is compared.  All choices come from the
`random.Random` passed in.
"""
import warnings

import numpy as np

from .execute import Execution, step_dsts, RaggedArray
from .syntax import Syn

INT_DTYPES = ["int8", "int16", "int32", "int64", "uint8", "uint16", "uint32", "uint64"]
FLOAT_DTYPES = ["float32", "float64"]
ALL_DTYPES = ["bool"] + INT_DTYPES + FLOAT_DTYPES
HUGE = 2 ** 40       # a slice bound far beyond any row end (and beyond the 32-bit index range)
# ... and bounds that are far beyond any row end but just inside / at / past the limits of the index dtypes
FAR = [HUGE, HUGE, 2 ** 31 - 1, 2 ** 31 - 2, 2 ** 30 + 7, 2 ** 31, 2 ** 32 + 1, 2 ** 63 - 1]


def _far(rng, sign=1):
    return sign * rng.choice(FAR)

KINDS = ["sel", "sel", "sel", "alias", "rowget", "elem", "maskget", "ufunc1", "ufunc2", "pyop",
         "reduce", "colagg", "scan", "concat", "like", "where", "nonzero", "rslice", "padded",
         "astype", "to_numpy", "saveload", "subset", "assign", "assign", "fill", "read"]


def swarm_params(rng):
    """Per-run knobs (swarm testing): sizes, dtypes, enabled step kinds and their weights."""
    kinds = sorted(set(KINDS))
    enabled = [k for k in kinds if rng.random() < 0.7]
    for must in ("sel",):
        if must not in enabled:
            enabled.append(must)
    weights = {k: rng.choice([1, 1, 2, 3]) for k in enabled}
    weights["sel"] = weights.get("sel", 1) + rng.choice([1, 2, 4])
    return {
        "big_rows": rng.random() < 0.06,
        "big_len": rng.random() < 0.06,
        "dtypes": rng.sample(ALL_DTYPES, rng.choice([1, 2, 3, len(ALL_DTYPES)])),
        "weights": weights,
        "n_steps": rng.randint(3, 14) if rng.random() < 0.95 else rng.randint(15, 30),
        "max_depth": rng.randint(1, 4),
        "empty_bias": rng.choice([0.0, 0.15, 0.3, 0.6]),
        "neg_step_bias": rng.choice([0.1, 0.3, 0.5]),
        "oob_bias": rng.choice([0.0, 0.1, 0.25]),
        "chain_rate": rng.choice([0.0, 0.1, 0.2, 0.35]),
        "burst_rate": rng.choice([0.0, 0.3, 0.6, 0.9]),
        "wild_rate": rng.choice([0.0, 0.1, 0.2, 0.5]),
        "huge_shape": rng.random() < 0.015,
    }


def _val(rng, dtype, extreme=False):
    dt = np.dtype(dtype)
    if dt.kind == "b":
        return rng.random() < 0.5
    if dt.kind in "iu":
        if extreme and rng.random() < 0.3:
            info = np.iinfo(dt)
            return int(rng.choice([info.min, info.max, info.max - 1]))
        lo = 0 if dt.kind == "u" else -4
        return rng.randint(lo, 9)
    if extreme and rng.random() < 0.3:
        return rng.choice(["nan", "inf", "-inf", -0.0])      # specials are spelled as strings in program text
    return rng.randint(-16, 32) / 4.0


def gen_lengths(rng, P):
    if P.get("giant"):
        # one array beyond 2**16 cells in a few rows (size thresholds of fast paths)
        n = rng.randint(2, 4)
        if rng.random() < 0.5:
            # one dominant row that alone passes the threshold, so that most selections still hold 2**16 cells
            lens = [rng.choice([0, 1, 2, rng.randint(3, 300)]) for _ in range(n)]
            lens[rng.randrange(n)] = rng.randint(65536, 67000)
            return lens, "none"
        total = rng.randint(66000, 70000)
        cuts = sorted(rng.sample(range(1, total), n - 1))
        return [b - a for a, b in zip([0] + cuts, cuts + [total])], "none"
    n = rng.randint(1, 8)
    if P["big_rows"]:
        n = rng.randint(15, 40)
    if rng.random() < 0.03:
        n = 0
    maxlen = 30 if P["big_len"] else 6
    if P.get("huge_shape"):
        # sizes beyond 8-bit (and the printing thresholds): one very long row or very many rows
        if rng.random() < 0.5:
            n = rng.randint(257, 300)
            maxlen = 3
        else:
            maxlen = rng.randint(257, 300)
            n = rng.randint(1, 3)
    pattern = rng.choice(["random", "random", "random", "start", "end", "end", "middle", "consecutive",
                          "consecutive", "all"]) \
        if rng.random() < min(max(P["empty_bias"], 0.05) * 1.5, 0.7) else "none"
    if pattern == "all" and rng.random() < 0.6:
        pattern = "random"
    lens = [rng.randint(1, maxlen) for _ in range(n)]
    if n:
        if pattern == "random":
            lens = [0 if rng.random() < 0.3 else l for l in lens]
        elif pattern == "start":
            lens[0] = 0
        elif pattern == "end":
            lens[-1] = 0
            if n > 1 and rng.random() < 0.4:
                lens[-2] = 0
        elif pattern == "middle":
            lens[n // 2] = 0
        elif pattern == "consecutive":
            i = rng.randrange(n)
            for j in range(i, min(n, i + rng.randint(2, 3))):
                lens[j] = 0
        elif pattern == "all":
            lens = [0] * n
    return lens, pattern


def _window(rng, n, P, lo_bias=False):
    """A slice (start, stop, step) over n >= 1 positions that selects at least one of them, written in one of
    its many equivalent spellings (None, negative, beyond the ends).  lo_bias keeps the window start small, so
    that most rows of a ragged array keep some elements under a column slice."""
    r = rng.random()
    if r < P["neg_step_bias"]:
        step = rng.choice([-1, -1, -2, -3])
    elif r < P["neg_step_bias"] + 0.3:
        step = rng.choice([1, 2, 2, 3])
    else:
        step = None
    if step is not None and P["oob_bias"] and rng.random() < 0.03:
        step = _far(rng, 1 if step > 0 else -1)
    if (step or 1) > 0:
        i = rng.randint(0, min(n - 1, 2)) if lo_bias and rng.random() < 0.7 else rng.randint(0, n - 1)
        k = rng.randint(i + 1, n) if rng.random() < 0.6 else n          # window [i, k)
        a = rng.choice([i, i - n] + ([None, None] if i == 0 else []) +
                       ([-n - 2, _far(rng, -1)] if i == 0 and P["oob_bias"] else []))
        b = rng.choice([k] + ([k - n] if k < n else [None, None]) +
                       ([n + 2, _far(rng)] if k == n and P["oob_bias"] else []))
    else:
        i = rng.randint(max(0, n - 3), n - 1) if lo_bias and rng.random() < 0.7 else rng.randint(0, n - 1)
        k = rng.randint(-1, i - 1) if rng.random() < 0.6 else -1            # indices i, i-1, ..., k+1
        a = rng.choice([i, i - n] + ([None, None] if i == n - 1 else []) +
                       ([n + 2, _far(rng)] if i == n - 1 and P["oob_bias"] else []))
        b = rng.choice(([k, k - n] if k >= 0 else [None, None]) +
                       ([-n - 2, _far(rng, -1)] if k == -1 and P["oob_bias"] else []))
    return a, b, step


def _wild_bounds(rng, n, P):
    """Completely free bounds: often an empty selection."""
    def bound():
        r = rng.random()
        if r < 0.3:
            return None
        if r < 0.3 + P["oob_bias"]:
            return rng.choice([n + 1, n + 3, -n - 1, -n - 3, _far(rng, 1 if rng.random() < 0.5 else -1)])
        return rng.randint(-n, n) if n else rng.choice([0, 1, -1])
    step = None
    r = rng.random()
    if r < P["neg_step_bias"]:
        step = rng.choice([-1, -1, -2, -3])
    elif r < P["neg_step_bias"] + 0.25:
        step = rng.choice([1, 2, 2, 3])
    return bound(), bound(), step


def gen_rowsel(rng, n, P, unique=False):
    """Row selector over n rows -> (index encoding, class string).  Most selectors keep at least one row (a chain
    of selections would otherwise degenerate to empty arrays); a swarm-chosen share is completely free."""
    kind = rng.choice(["sl", "sl", "sl", "list", "arr", "mask"])
    wild = n == 0 or rng.random() < P.get("wild_rate", 0.15)
    if kind == "sl":
        a, b, step = _wild_bounds(rng, n, P) if wild else _window(rng, n, P)
        cls = "sl" + ("-" if (step or 1) < 0 else "+") + ("n" if abs(step or 1) > 1 else "1")
        if rng.random() < 0.08:
            return ["sl", a, b, step, "np"], cls
        return ["sl", a, b, step], cls
    if kind in ("list", "arr"):
        if n == 0:
            return [kind, []], kind + "0"
        if unique:
            k = rng.randint(0 if wild else 1, n)
            rows = rng.sample(range(n), k)
            rows = [r - n if rng.random() < 0.3 else r for r in rows]
        else:
            k = rng.randint(0 if wild else 1, n + 2)
            rows = [rng.randint(-n, n - 1) for _ in range(k)]
        if rows and not unique and P["oob_bias"] and rng.random() < P["oob_bias"] / 2:
            # one entry that does not exist (the whole selection must then be refused)
            rows[rng.randrange(len(rows))] = rng.choice([n, n + 2, -n - 1, -n - 3])
        if kind == "arr" and rows and rng.random() < 0.4:
            fits = [d for d in ("int8", "int16", "int32", "uint8", "uint16", "uint32", "uint64", "intp")
                    if all(int(np.iinfo(d).min) <= r <= int(np.iinfo(d).max) for r in rows)]
            if fits:
                return ["arr", rows, rng.choice(fits)], kind
        return [kind, rows], kind + ("0" if not rows else "")
    mask = [1 if rng.random() < 0.65 else 0 for _ in range(n)]
    if n and not wild and not any(mask):
        mask[rng.randrange(n)] = 1
    if n and rng.random() < 0.15:
        return ["blist", mask], "mask"       # a plain Python list of bools
    return ["mask", mask], "mask"


def gen_colslice(rng, maxlen, P):
    """Column slice for rows of length <= maxlen.  Mostly a window that leaves most rows non-empty."""
    if maxlen == 0 or rng.random() < P.get("wild_rate", 0.15):
        a, b, step = _wild_bounds(rng, maxlen, P)
    else:
        a, b, step = _window(rng, maxlen, P, lo_bias=True)
    cls = "c" + ("-" if (step or 1) < 0 else "+") + ("n" if abs(step or 1) > 1 else "1")
    if rng.random() < 0.08:
        return ["sl", a, b, step, "np"], cls
    return ["sl", a, b, step], cls


class Generator:
    def __init__(self, rng, P=None, hazard_free=True, max_vars=10):
        self.rng = rng
        self.P = P or swarm_params(rng)
        self.hazard_free = hazard_free
        self.max_vars = max_vars if self.P["n_steps"] <= 14 else 16
        self.prog = []
        self.sig = []
        self.ex = Execution()
        self.syn = Syn()
        self.n = 0
        self.depth = {}
        self.meta_pattern = "none"

    # -- plumbing ----------------------------------------------------------------------------
    def fresh(self):
        v = f"v{self.n}"
        self.n += 1
        return v

    def emit(self, st, sig=None):
        i = len(self.prog)
        self.prog.append(st)
        with warnings.catch_warnings(), np.errstate(all="ignore"):
            warnings.simplefilter("ignore")
            o = self.ex.step(st)
            for d in step_dsts(st):
                if d in self.ex.env:
                    self.ex.freshen(d)
        self.syn.feed(i, st, o)
        self.sig.append(sig or st["op"])
        return o

    def vars(self, usable=True):
        vs = sorted(self.ex.env, key=lambda s: int(s[1:]))
        if usable:
            vs = [v for v in vs if v not in self.ex.opaque]
        return vs

    def info(self, v):
        ra = self.ex.env[v]
        return len(ra), np.asarray(ra.lengths).tolist(), np.dtype(ra.dtype)

    def pick(self):
        """Prefer recently created selections (pending in the lazy schedule)."""
        vs = self.vars()
        if not vs:
            return None
        pend = [v for v in vs if v in self.syn.parent and v not in self.syn.sure]
        r = self.rng.random()
        if pend and r < 0.55:
            return pend[-1] if self.rng.random() < 0.7 else self.rng.choice(pend)
        if r < 0.75:
            return vs[-1]
        return self.rng.choice(vs)

    def room(self):
        return len(self.ex.env) < self.max_vars

    # -- constructors --------------------------------------------------------------------------
    def g_new(self, lengths=None, dtype=None):
        rng = self.rng
        if lengths is None:
            lengths, pat = gen_lengths(rng, self.P)
            self.meta_pattern = pat
            if self.P.get("giant"):
                self.P["giant"] = False          # only the first array is giant
                dtype = rng.choice(["int8", "uint8", "int16"])
        dtype = dtype or rng.choice(self.P["dtypes"])
        extreme = rng.random() < 0.1
        rows = [[_val(rng, dtype, extreme) for _ in range(l)] for l in lengths]
        v = self.fresh()
        how = rng.choice(["rows", "rows", "flat", "np"])
        if how == "np" and not (lengths and len(set(lengths)) == 1 and lengths[0] > 0):
            how = "flat"
        if how == "rows":
            st = {"op": "new_rows", "dst": v, "rows": rows, "dtype": dtype}
        elif how == "flat":
            st = {"op": "new_flat", "dst": v, "flat": [x for r in rows for x in r], "lengths": lengths,
                  "dtype": dtype}
            if rng.random() < 0.12:
                st["via"] = "frombuffer"
        else:
            st = {"op": "new_np", "dst": v, "matrix": [x for r in rows for x in r],
                  "shape": [len(lengths), lengths[0]], "dtype": dtype}
        self.emit(st, f"new:{np.dtype(dtype).kind}")
        self.depth[v] = 0
        return v

    def partner(self, v):
        """A variable with the same row lengths as v, obtained independently of v when possible."""
        n, lens, dt = self.info(v)
        cands = [w for w in self.vars() if w != v and self.info(w)[1] == lens]
        if cands and self.rng.random() < 0.6:
            return self.rng.choice(cands)
        if not self.room():
            return cands[0] if cands else None
        dtype = self.rng.choice([dt.name, self.rng.choice(self.P["dtypes"])])
        if self.rng.random() < 0.25:
            # RaggedArray(flat, v.shape) / RaggedArray(flat, v.lengths): the shape comes from a live (possibly
            # unread) array
            w = self.fresh()
            self.emit({"op": "new_like", "dst": w, "src": v, "how": self.rng.choice(["tuple", "lengths"]),
                       "flat": [_val(self.rng, dtype) for _ in range(sum(lens))], "dtype": dtype}, "new_like")
            if w in self.ex.env:
                self.depth[w] = 0
                return w
        return self.g_new(lengths=lens, dtype=dtype)

    # -- step kinds ----------------------------------------------------------------------------
    def g_sel(self, chain=False):
        v = self.pick()
        if chain and self.vars():
            v = self.vars()[-1]
        if v is None or not self.room():
            return
        if not chain and self.depth.get(v, 0) >= self.P["max_depth"] and self.rng.random() < 0.7:
            v = self.rng.choice(self.vars())
        n, lens, dt = self.info(v)
        rng = self.rng
        r = rng.random()
        if r < 0.45:
            ix, cls = gen_rowsel(rng, n, self.P)
        elif r < 0.6:
            c, ccls = gen_colslice(rng, max(lens, default=0), self.P)
            ix, cls = ["tup", ["ell"] if rng.random() < 0.3 else ["sl", None, None, None], c], "all," + ccls
        else:
            rs, rcls = gen_rowsel(rng, n, self.P)
            c, ccls = gen_colslice(rng, max(lens, default=0), self.P)
            ix, cls = ["tup", rs, c], rcls + "," + ccls
            q = rng.random()
            if q < 0.04:
                ix, cls = ["tup", rs, ["ell"]], rcls + ",..."          # a[rows, ...]
            elif q < 0.08:
                ix = ["tup", rs, ["ell"], c]                            # a[rows, ..., cols]
        d = self.fresh()
        o = self.emit({"op": "getitem", "src": v, "ix": ix, "dst": d}, f"sel[{cls}]@{min(self.depth.get(v, 0), 3)}")
        if d in self.ex.env:
            self.depth[d] = self.depth.get(v, 0) + 1

    def g_alias(self):
        v = self.pick()
        if v is None or not self.room():
            return
        d = self.fresh()
        self.emit({"op": "getitem", "src": v, "ix": [self.rng.choice(["ell", "unit"])], "dst": d},
                  f"alias@{min(self.depth.get(v, 0), 3)}")
        if d in self.ex.env:
            self.depth[d] = self.depth.get(v, 0)

    def _row_int(self, n):
        rng = self.rng
        if n == 0 or rng.random() < self.P["oob_bias"] + 0.05:
            return rng.choice([n, n + 2, -n - 1, -n - 3]), "oob"
        return rng.randint(-n, n - 1), "in"

    def g_rowget(self, v=None):
        v = v or self.pick()
        if v is None:
            return
        n, lens, dt = self.info(v)
        i, cls = self._row_int(n)
        self.emit({"op": "getitem", "src": v, "ix": [self.rng.choice(["int", "int", "npint", "int0d"]), i]},
                  f"row[{cls}]")

    def g_elem(self, v=None, form=None):
        v = v or self.pick()
        if v is None:
            return
        rng = self.rng
        n, lens, dt = self.info(v)
        form = form or rng.choice(["ij", "ij", "lists", "rows_j", "i_cols"])
        if form == "ij":
            i, ci = self._row_int(n)
            L = lens[i] if (-n <= i < n) else 3
            if L == 0 or rng.random() < self.P["oob_bias"] + 0.05:
                j = rng.choice([L, L + 1, -L - 1])
                cj = "oob"
            else:
                j = rng.randint(-L, L - 1)
                cj = "in"
            ix = ["tup", ["int", i], ["int", j]]
            if self.P["oob_bias"] and rng.random() < 0.06:
                # far out of range, as numpy integers: congruent to a valid index modulo 2**32
                w = rng.choice([2 ** 32, -2 ** 32, 2 ** 33, 2 ** 40])
                ix = ["tup", ["npint", i + (w if rng.random() < 0.3 else 0)], ["npint", j + w]]
                cj = "huge"
            cls = f"ij:{ci}{cj}"
        elif form == "lists":
            rows = [r for r in range(n) if lens[r] > 0]
            if not rows:
                return
            k = rng.randint(1, 4)
            rs = [rng.choice(rows) for _ in range(k)]
            cs = [rng.randint(0, lens[r] - 1) for r in rs]
            if rng.random() < 0.3:
                cs = [c - lens[r] for r, c in zip(rs, cs)]
            kind = rng.choice(["list", "list", "arr"])
            cls = "lists"
            if self.P["oob_bias"] and rng.random() < 0.08:
                kind = "arr"
                q = rng.randrange(len(cs))
                cs[q] = cs[q] + rng.choice([2 ** 32, -2 ** 32, 2 ** 33, 2 ** 40])
                cls = "lists:huge"
            ix = ["tup", [kind, rs], [kind, cs]]
        elif form == "rows_j":
            if n and max(lens) > 0 and rng.random() < 0.75:
                # rows long enough for column j (so that the read is accepted), as list / mask / slice
                j = rng.randint(0, max(lens) - 1)
                rows = [r for r in range(n) if lens[r] > j]
                if rng.random() < 0.4:
                    j = j - min(lens[r] for r in rows) if rng.random() < 0.5 else -1
                    rows = [r for r in rows if lens[r] >= -j]
                how = rng.choice(["list", "mask", "sub"])
                if how == "mask":
                    rs, rcls = ["mask", [1 if r in rows else 0 for r in range(n)]], "mask"
                elif how == "sub":
                    rs, rcls = ["list", [rng.choice(rows) for _ in range(rng.randint(1, 4))]], "list"
                else:
                    rs, rcls = ["list", rows], "list"
                if len(rows) == n and rng.random() < 0.5:
                    rs, rcls = ["sl", None, None, rng.choice([None, -1])], "sl"
            else:
                rs, rcls = gen_rowsel(rng, n, self.P)
                m = min(lens, default=0)
                j = rng.randint(-max(m, 1), max(m, 1))
            if self.P["oob_bias"] and rng.random() < 0.04:
                j = rng.choice([HUGE, -HUGE, 2 ** 31, 2 ** 32 + 1])      # a column far beyond every row
                if rng.random() < 0.5:
                    rs, rcls = rng.choice([["sl", 1, 1, None], ["list", []], ["mask", [0] * n]]), "none"
            ix = ["tup", rs, ["int", j]]
            cls = "rows_j:" + rcls
        else:
            i, ci = self._row_int(n)
            c, ccls = gen_colslice(rng, max(lens, default=0), self.P)
            ix = ["tup", ["int", i], c]
            cls = f"i_cols:{ci}{ccls}"
        self.emit({"op": "getitem", "src": v, "ix": ix}, f"elem[{cls}]")

    def _mask_of(self, v):
        """Emit m = (v > c): a boolean ragged mask with v's row lengths."""
        if not self.room():
            return None
        n, lens, dt = self.info(v)
        m = self.fresh()
        c = True if dt.kind == "b" else (2 if dt.kind in "iu" else 1.5)
        f = "ne" if dt.kind == "b" else self.rng.choice(["gt", "lt", "ge", "ne"])
        self.emit({"op": "pyop2", "f": f, "a": ["var", v], "b": ["py", c], "dst": m}, "cmp")
        return m if m in self.ex.env else None

    def g_maskget(self):
        v = self.pick()
        if v is None:
            return
        src = v if self.rng.random() < 0.5 else (self.partner(v) or v)
        m = self._mask_of(src)
        if m is None:
            return
        if self.rng.random() < 0.5:
            self.emit({"op": "getitem", "src": v, "ix": ["rmask", m]}, "maskget")
        elif self.room():
            self.emit({"op": "subset", "src": v, "mask": m, "dst": self.fresh()}, "subset")

    def g_subset(self):
        self.g_maskget()

    def g_ufunc1(self):
        v = self.pick()
        if v is None or not self.room():
            return
        dt = self.info(v)[2]
        if dt.kind == "b":
            fs = ["logical_not", "invert"]
        elif dt.kind in "iu":
            fs = ["negative", "abs", "square", "invert", "sign", "logical_not"]
        else:
            fs = ["negative", "abs", "square", "sign", "sqrt", "floor", "logical_not"]
        self.emit({"op": "ufunc1", "f": self.rng.choice(fs), "src": v, "dst": self.fresh()}, "ufunc1")

    def _other_operand(self, v):
        rng = self.rng
        n, lens, dt = self.info(v)
        r = rng.random()
        if r < 0.3:
            return (["py", _val(rng, dt)] if dt.kind != "f" else ["pyf", _val(rng, dt)]), "py"
        if r < 0.4:
            return ["sc", dt.name, _val(rng, dt)], "sc"
        if r < 0.6:
            odt = rng.choice([dt.name, rng.choice(self.P["dtypes"])])
            if np.dtype(odt).kind == "f" and rng.random() < 0.4:
                # generic reals of mixed magnitude (not exactly representable sums of differences): a column is
                # broadcast along the rows, which must be a pure copy of each value
                pool = [0.1, 2.5, 1e16, 1.0, -3.3, 1e-3, 7.0 / 3.0, -1e-9, 12345.678]
                if rng.random() < 0.3:
                    pool += ["inf", "nan", "-inf"]
                return ["col", odt, [rng.choice(pool) for _ in range(n)]], "col"
            return ["col", odt, [_val(rng, odt) for _ in range(n)]], "col"
        if r < 0.95:
            w = self.partner(v)
            if w is not None:
                return ["var", w], "var"
        ws = [w for w in self.vars() if w != v]
        if ws:
            return ["var", rng.choice(ws)], "anyvar"
        return ["py", 1], "py"

    def g_ufunc2(self):
        v = self.pick()
        if v is None or not self.room():
            return
        dt = self.info(v)[2]
        common = ["add", "subtract", "multiply", "maximum", "minimum", "equal", "not_equal", "less",
                  "greater_equal", "logical_and", "logical_or", "logical_xor"]
        if dt.kind in "biu":
            common += ["bitwise_and", "bitwise_or", "bitwise_xor"]
        if dt.kind == "f":
            common += ["true_divide"]
        other, ocls = self._other_operand(v)
        a, b = ["var", v], other
        side = "L"
        if self.rng.random() < 0.4:
            a, b = b, a
            side = "R"
        self.emit({"op": "ufunc2", "f": self.rng.choice(common), "a": a, "b": b, "dst": self.fresh()},
                  f"ufunc2:{ocls}{side}")

    def g_pyop(self):
        v = self.pick()
        if v is None or not self.room():
            return
        dt = self.info(v)[2]
        if self.rng.random() < 0.2:
            f = "invert" if dt.kind in "b" else self.rng.choice(["neg", "abs", "pos"] + (["invert"] if dt.kind in "iu" else []))
            self.emit({"op": "pyop1", "f": f, "src": v, "dst": self.fresh()}, "pyop1")
            return
        fs = ["add", "sub", "mul", "eq", "ne", "lt", "ge"]
        if dt.kind in "biu":
            fs += ["and_", "or_", "xor"]
        other, ocls = self._other_operand(v)
        a, b = ["var", v], other
        side = "L"
        if self.rng.random() < 0.4 and other[0] != "py":
            a, b = b, a
            side = "R"
        elif self.rng.random() < 0.3:
            a, b = b, a
            side = "R"
        self.emit({"op": "pyop2", "f": self.rng.choice(fs), "a": a, "b": b, "dst": self.fresh()},
                  f"pyop2:{ocls}{side}")

    def g_reduce(self):
        v = self.pick()
        if v is None:
            return
        rng = self.rng
        f = rng.choice(["sum", "sum", "prod", "any", "all", "max", "min", "mean"])
        via = rng.choice(["method", "method", "np", "ufunc"]) if f != "mean" else rng.choice(["method", "np"])
        axis = rng.choice([None, -1, -1, 1])
        st = {"op": "reduce", "src": v, "f": f, "axis": axis, "via": via,
              "keepdims": (rng.random() < 0.25 and axis is not None and via != "ufunc")}
        self.emit(st, f"reduce:{f}:{via}:{'all' if axis is None else 'row'}")

    def g_colagg(self, v=None, f=None):
        v = v or self.pick()
        if v is None:
            return
        f = f or self.rng.choice(["sum0", "mean0", "col_counts", "colvals"])
        st = {"op": "colagg", "src": v, "f": f}
        if f == "colvals":
            m = max(self.info(v)[1], default=0)
            st["j"] = self.rng.randint(0, max(m - 1, 0))
        self.emit(st, "colagg:" + f)

    def g_scan(self):
        v = self.pick()
        if v is None or not self.room():
            return
        f = self.rng.choice(["cumsum", "np_cumsum", "acc_add", "acc_subtract", "acc_bitwise_xor", "sort",
                             "sort", "unique", "unique_counts", "diff", "flat_cumsum", "flat_unique"])
        if f.startswith("flat_"):
            self.emit({"op": "scan", "src": v, "f": f}, "scan:" + f)
            return
        st = {"op": "scan", "src": v, "f": f, "dst": self.fresh()}
        if f == "diff":
            st["n"] = self.rng.choice([1, 1, 2, 3])
        if f == "unique_counts":
            st["dst2"] = self.fresh()
        self.emit(st, "scan:" + f)

    def g_concat(self):
        v = self.pick()
        if v is None or not self.room():
            return
        rng = self.rng
        axis = rng.choice([0, 0, 1])
        vs = self.vars()
        if axis == 0:
            others = [rng.choice(vs) for _ in range(rng.randint(1, 2))]
        else:
            n = self.info(v)[0]
            same = [w for w in vs if self.info(w)[0] == n]
            others = [rng.choice(same) for _ in range(rng.randint(1, 2))]
        srcs = [v] + others
        rng.shuffle(srcs)
        self.emit({"op": "concat", "srcs": srcs, "axis": axis, "dst": self.fresh()}, f"concat{axis}")

    def g_like(self):
        v = self.pick()
        if v is None or not self.room():
            return
        f = self.rng.choice(["zeros_like", "ones_like", "ones_like", "empty_like"])
        st = {"op": "like", "src": v, "f": f, "dst": self.fresh()}
        if self.rng.random() < 0.3:
            st["dtype"] = self.rng.choice(ALL_DTYPES)
        self.emit(st, "like:" + f)

    def g_where(self):
        v = self.pick()
        if v is None:
            return
        m = self._mask_of(v)
        if m is None or not self.room():
            return
        rng = self.rng
        dt = self.info(v)[2]

        def arm():
            if rng.random() < 0.5:
                return ["var", v] if rng.random() < 0.5 else ["var", self.partner(v) or v]
            return ["py", _val(rng, dt)] if dt.kind != "f" else ["pyf", _val(rng, dt)]
        x, y = arm(), arm()
        if x[0] != "var":     # the library needs x to be an array (takes the class from it)
            x = ["var", v]
        self.emit({"op": "where", "mask": m, "x": x, "y": y, "dst": self.fresh()}, "where")

    def g_nonzero(self):
        v = self.pick()
        if v is None:
            return
        self.emit({"op": "nonzero", "src": v, "via": self.rng.choice(["method", "np"])}, "nonzero")

    def g_rslice(self):
        v = self.pick()
        if v is None or not self.room():
            return
        rng = self.rng
        n, lens, dt = self.info(v)
        starts = [rng.randint(0, l) for l in lens] if rng.random() < 0.8 else None
        ends = None
        if rng.random() < 0.7:
            ends = []
            for k, l in enumerate(lens):
                s = starts[k] if starts else 0
                r = rng.random()
                if r < 0.3 and l > 0:
                    ends.append(-rng.randint(1, l))
                elif r < 0.4:
                    # an "open" end beyond the row (it is clamped to the row end), occasionally far beyond
                    ends.append(l + rng.randint(1, 5) if rng.random() < 0.7 else 2 ** 32 + 1 + rng.randint(0, 3))
                else:
                    ends.append(rng.randint(s, l))
        self.emit({"op": "rslice", "src": v, "starts": starts, "ends": ends, "dst": self.fresh()}, "rslice")

    def g_padded(self):
        v = self.pick()
        if v is None:
            return
        self.emit({"op": "padded", "src": v, "side": self.rng.choice(["left", "right"]),
                   "fill": self.rng.choice([0, 0, 7])}, "padded")

    def g_astype(self):
        v = self.pick()
        if v is None or not self.room():
            return
        dt = self.info(v)[2].name if self.rng.random() < 0.25 else self.rng.choice(ALL_DTYPES)   # (often a no-op cast)
        self.emit({"op": "astype", "src": v, "dtype": dt, "dst": self.fresh()}, "astype")

    def g_to_numpy(self):
        vs = [v for v in self.vars() if len(set(self.info(v)[1])) <= 1]
        v = self.pick()
        if vs and self.rng.random() < 0.8:
            v = self.rng.choice(vs)
        if v is None:
            return
        self.emit({"op": "to_numpy", "src": v}, "to_numpy")

    def g_saveload(self):
        v = self.pick()
        if v is None or not self.room():
            return
        self.emit({"op": "saveload", "src": v, "dst": self.fresh()}, "saveload")

    def g_read(self):
        v = self.pick()
        if v is None:
            return
        f = self.rng.choice(["repr", "str", "iter", "tolist", "ravel", "len", "size", "shape", "lengths",
                             "dtype", "equals"])
        st = {"op": "read", "src": v, "f": f}
        if f == "equals":
            st["other"] = self.partner(v) or v
        self.emit(st, "read:" + f)

    # -- writes ------------------------------------------------------------------------------
    def _write_target(self):
        """Choose a target; in hazard-free mode clear the hazard first by reading the exposed
        selections (a perfectly ordinary program: look at b, then write a)."""
        vs = self.vars()
        if not vs:
            return None
        rng = self.rng
        t = self.pick() if rng.random() < 0.6 else rng.choice(vs)
        if not self.hazard_free and rng.random() < 0.6:
            # hazard stream: prefer a source that still has unread selections alive (stale-alias finding R01)
            hz = [w for w in vs if self.syn.exposed_by_write(w)]
            if hz:
                t = rng.choice(hz)
        if self.hazard_free:
            exp = self.syn.exposed_by_write(t)
            if exp:
                if rng.random() < 0.5:
                    safe = [w for w in vs if not self.syn.exposed_by_write(w)]
                    if not safe:
                        return None
                    t = rng.choice(safe)
                else:
                    for e in exp:
                        self.emit({"op": "read", "src": e, "f": rng.choice(["ravel", "tolist", "iter"])},
                                  "read:clear")
                    if self.syn.exposed_by_write(t):
                        return None
        return t

    def g_fill(self):
        t = self._write_target()
        if t is None:
            return
        dt = self.info(t)[2]
        self.emit({"op": "fill", "tgt": t, "value": ["py", _val(self.rng, dt)] if dt.kind != "f"
                   else ["pyf", _val(self.rng, dt)]}, "fill")

    def g_assign(self):
        t = self._write_target()
        if t is None:
            return
        rng = self.rng
        n, lens, dt = self.info(t)
        # index
        form = rng.choice(["rows", "rows", "rows_cols", "int", "ij", "rmask", "all_cols"])
        if form == "rows":
            ix, cls = gen_rowsel(rng, n, self.P, unique=True)
        elif form == "rows_cols":
            rs, rcls = gen_rowsel(rng, n, self.P, unique=True)
            c, ccls = gen_colslice(rng, max(lens, default=0), self.P)
            ix, cls = ["tup", rs, c], rcls + "," + ccls
        elif form == "all_cols":
            c, ccls = gen_colslice(rng, max(lens, default=0), self.P)
            ix, cls = ["tup", ["ell"] if rng.random() < 0.3 else ["sl", None, None, None], c], "all," + ccls
        elif form == "int":
            i, ci = self._row_int(n)
            ix, cls = ["int", i], "int" + ci
        elif form == "ij":
            rows = [r for r in range(n) if lens[r] > 0]
            if not rows:
                return
            r = rng.choice(rows)
            ix, cls = ["tup", ["int", r], ["int", rng.randint(-lens[r], lens[r] - 1)]], "ij"
        else:
            m = self._mask_of(t if rng.random() < 0.5 else (self.partner(t) or t))
            if m is None:
                return
            if self.hazard_free and self.syn.exposed_by_write(t):
                return
            ix, cls = ["rmask", m], "rmask"
        # shape of the selection, from the scout (result discarded)
        sel_lens = None
        sel_size = None
        try:
            from .values import dec_index
            with warnings.catch_warnings(), np.errstate(all="ignore"):
                warnings.simplefilter("ignore")
                s = self.ex.env[t][dec_index(ix, self.ex.env)]
            if isinstance(s, RaggedArray):
                sel_lens = np.asarray(s.lengths).tolist()
                sel_size = int(sum(sel_lens))
            else:
                sel_size = int(np.asarray(s).size)
        except Exception:
            pass
        kinds = ["py", "py", "sc"]
        if sel_size is not None:
            kinds += ["row", "list"]
        if sel_lens is not None:
            kinds += ["col", "var", "var", "badvar"]
        k = rng.choice(kinds)
        if k == "py":
            value = ["py", _val(rng, dt)] if dt.kind != "f" else ["pyf", _val(rng, dt)]
        elif k == "sc":
            value = ["sc", dt.name, _val(rng, dt)]
        elif k == "row":
            value = ["row", dt.name, [_val(rng, dt) for _ in range(sel_size)]]
        elif k == "list":
            value = ["list", [_val(rng, dt) for _ in range(sel_size)]]
        elif k == "col":
            value = ["col", dt.name, [_val(rng, dt) for _ in range(len(sel_lens))]]
            if dt.kind == "f" and rng.random() < 0.4:
                value = ["col", dt.name, [rng.choice([0.1, 2.5, 1e16, 1.0, -3.3, 1e-3, 7.0 / 3.0, "inf", "nan"])
                                          for _ in range(len(sel_lens))]]
        elif k == "var":
            # a matching ragged value: the same index applied to an array of t's shape (a pending
            # selection in the lazy schedule)
            w = self.partner(t)
            if w is None or not self.room() or ix[0] in ("rmask", "int"):
                value = ["py", _val(rng, dt)] if dt.kind != "f" else ["pyf", _val(rng, dt)]
            else:
                u = self.fresh()
                self.emit({"op": "getitem", "src": w, "ix": ix, "dst": u}, "sel:forvalue")
                if u not in self.ex.env:
                    return
                self.depth[u] = self.depth.get(w, 0) + 1
                if self.hazard_free and self.syn.exposed_by_write(t):
                    # the new selection may be rooted in t itself: read it first
                    self.emit({"op": "read", "src": u, "f": "ravel"}, "read:clear")
                    if self.syn.exposed_by_write(t):
                        return
                value = ["var", u]
        else:
            ws = [w for w in self.vars() if w != t]
            if not ws:
                return
            value = ["var", rng.choice(ws)]
        self.emit({"op": "assign", "tgt": t, "ix": ix, "value": value}, f"assign[{cls}]={k}")

    # -- driver --------------------------------------------------------------------------------
    def g_alias_scenario(self):
        """u = a[...]; s = (a or u)[selection]; write through the OTHER of a / u; the selection stays unread until
        later.  (Only where writes are placed freely.)"""
        rng = self.rng
        if self.hazard_free or len(self.ex.env) + 2 > self.max_vars:
            return
        vs = self.vars()
        if not vs:
            return
        a = rng.choice(vs) if rng.random() < 0.5 else vs[0]
        u = self.fresh()
        self.emit({"op": "getitem", "src": a, "ix": [rng.choice(["ell", "unit"])], "dst": u}, "alias@0")
        if u not in self.ex.env:
            return
        self.depth[u] = self.depth.get(a, 0)
        through, other = (a, u) if rng.random() < 0.5 else (u, a)
        n, lens, dt = self.info(through)
        rs, rcls = gen_rowsel(rng, n, self.P)
        sel = self.fresh()
        self.emit({"op": "getitem", "src": through, "ix": rs, "dst": sel}, f"sel[{rcls}]@alias")
        if sel not in self.ex.env:
            return
        self.depth[sel] = 1
        if rng.random() < 0.5:
            self.emit({"op": "fill", "tgt": other, "value": ["py", _val(rng, dt)] if dt.kind != "f"
                       else ["pyf", _val(rng, dt)]}, "fill")
        elif n:
            self.emit({"op": "assign", "tgt": other, "ix": ["int", rng.randint(-n, n - 1)],
                       "value": ["py", _val(rng, dt)] if dt.kind != "f" else ["pyf", _val(rng, dt)]}, "assign[int]=py")

    def g_chain(self):
        """A selection chain: selections of selections, each applied to the previous (still unread)
        result - the compounding that C06 is about - optionally followed by a burst of reads that do
        not materialise (element / column reads), which therefore all see the compounded view."""
        rng = self.rng
        depth = rng.randint(1, self.P["max_depth"])
        last = None
        for _ in range(depth):
            before = self.n
            self.g_sel(chain=True)
            if f"v{before}" not in self.ex.env:
                break
            last = f"v{before}"
        if last is not None and rng.random() < self.P["burst_rate"]:
            for _ in range(rng.randint(1, 3)):
                k = rng.choice(["ij", "lists", "rows_j", "rows_j", "i_cols", "colvals", "colvals", "col_counts", "row"])
                if k in ("colvals", "col_counts"):
                    self.g_colagg(last, k)
                elif k == "row":
                    self.g_rowget(last)
                else:
                    self.g_elem(last, k)

    def generate(self):
        rng = self.rng
        if not self.hazard_free:
            for k in ("assign", "fill"):
                self.P["weights"][k] = self.P["weights"].get(k, 1) * 3
        self.g_new()
        if rng.random() < 0.25:
            self.g_new()
        kinds = sorted(self.P["weights"])
        ws = [self.P["weights"][k] for k in kinds]
        if rng.random() < 0.8:
            self.g_chain()
        guard = 0
        while len(self.prog) < self.P["n_steps"] and guard < 60 + 4 * self.P["n_steps"]:
            guard += 1
            if rng.random() < self.P["chain_rate"] and self.room():
                self.g_chain()
                continue
            if not self.hazard_free and rng.random() < 0.06:
                self.g_alias_scenario()
                continue
            k = rng.choices(kinds, ws)[0]
            getattr(self, "g_" + k)()
        return self.prog

    def signature(self):
        dts = sorted({s.split(":")[1] for s in self.sig if s.startswith("new:")})
        return "|".join(self.sig) + "#" + "".join(dts) + "#" + self.meta_pattern


def generate(rng, hazard_free=True, giant=False):
    g = Generator(rng, hazard_free=hazard_free)
    if giant:
        g.P.update({"giant": True, "n_steps": min(g.P["n_steps"], 6), "wild_rate": 0.0, "max_depth": 2,
                    "big_rows": False, "big_len": False, "huge_shape": False})
        g.max_vars = 6
    prog = g.generate()
    meta = {}
    for v in g.vars(usable=False):
        n, lens, dt = g.info(v)
        meta[v] = {"n": n, "lengths": lens, "dtype": dt.name, "opaque": v in g.ex.opaque}
    return prog, meta, g
