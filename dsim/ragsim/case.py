"""A *case* is one concrete (program, execution A, execution B) triple whose histories are compared.

Cases are what replay files contain; evaluating one is a pure function of the file and the code
(no PRNG, no clock).
"""
import json

from .execute import run, first_divergence, all_divergences, step_reads, step_dsts, ballast
from .syntax import analyse

FORMAT = "dsim-ragsim-1"


def make_case(prop, program, a, b, hazard_free=True, origin=None):
    return {"format": FORMAT, "property": prop, "engine": "ragsim", "origin": origin or {},
            "program": program, "a": a, "b": b, "hazard_free": hazard_free}


def side(schedule, width="int64"):
    return {"schedule": schedule, "width": width}


def evaluate(case, want_all=False):
    """Run both executions; return (divergence|None, exec_a, exec_b)."""
    with ballast(case.get("ballast", 0)):
        ea = run(case["program"], case["a"]["schedule"], case["a"].get("width", "int64"))
        eb = run(case["program"], case["b"]["schedule"], case["b"].get("width", "int64"))
    neutralise_text(case, ea, eb)
    d = first_divergence(ea, eb)
    return d, ea, eb


def neutralise_text(case, ea, eb):
    """Between two index-width configurations the *text* printed by repr/str is not compared (only whether
    printing raised): C19 speaks of values, row lengths and element dtypes, and a printed form may
    legitimately mention the index dtype."""
    if case["a"].get("width", "int64") == case["b"].get("width", "int64"):
        return
    for i, st in enumerate(case["program"]):
        if st["op"] == "read" and st.get("f") in ("repr", "str"):
            for ex in (ea, eb):
                if i < len(ex.out) and ex.out[i][0] == "ok":
                    ex.out[i] = ["ok", "<text not compared across widths>"]


def div_class(case, d):
    """Coarse class of a divergence, used to keep the *same kind* of violation while shrinking and to
    group raw violations before minimisation."""
    if d is None:
        return None
    if d["where"] == "step":
        st = case["program"][d["step"]]
        kind = st["op"]
        if st["op"] == "getitem":
            kind += ":" + st["ix"][0]
        elif "f" in st:
            kind += ":" + str(st["f"])
        return ("step", kind, d["a"][0], d["b"][0])
    if d["where"] == "dump":
        return ("dump", d.get("route"), (d["a"] or ["?"])[0] if isinstance(d["a"], list) else "?",
                (d["b"] or ["?"])[0] if isinstance(d["b"], list) else "?")
    return (d["where"],)


def hazard_info(case, ea=None):
    """Syntactic hazard / taint analysis of the case's program against execution A's outcomes."""
    if ea is None:
        ea = run(case["program"], case["a"]["schedule"], case["a"].get("width", "int64"))
    return analyse(case["program"], ea.out)


def explained_by_stale_alias(case, ea, eb):
    """True iff the program contains a hazard write and *every* diverging observation is
    data-dependent on a variable exposed by such a write (known finding R1)."""
    syn = analyse(case["program"], ea.out)
    syn_b = analyse(case["program"], eb.out)
    if not syn.hazard_steps and not syn_b.hazard_steps:
        return False
    tainted_vars = syn.tainted | syn_b.tainted
    tainted_steps = syn.tainted_steps | syn_b.tainted_steps
    for kind, where in all_divergences(ea, eb):
        if kind == "step":
            if where not in tainted_steps:
                return False
        else:
            if where not in tainted_vars:
                return False
    return True


def dumps(case):
    return json.dumps(case, indent=1, sort_keys=True)


def pretty(case):
    """Human-readable rendering of a program + schedules (for reports and DESIGN examples)."""
    lines = []
    for i, st in enumerate(case["program"]):
        lines.append(f"  {i:2d}: {render_step(st)}")
    for name in ("a", "b"):
        s = case[name]["schedule"]
        acts = "; ".join(f"@{g} {render_act(a)}" for g, a in s.get("acts", []))
        lines.append(f"  {name}: width={case[name].get('width', 'int64')} eager={bool(s.get('eager'))} [{acts}]")
    if case.get("ballast"):
        lines.append(f"  environment: {case['ballast']} other live arrays with live unread selections (ballast)")
    return "\n".join(lines)


def _ix(ix):
    t = ix[0]
    if t in ("int", "npint", "int0d"):
        return str(ix[1]) if t != "int0d" else f"np.array({ix[1]})"
    if t == "sl":
        f = lambda x: "" if x is None else str(x)
        return f"{f(ix[1])}:{f(ix[2])}" + ("" if ix[3] is None else f":{ix[3]}")
    if t in ("list", "arr"):
        return ("np.array(" if t == "arr" else "") + str(ix[1]) + (")" if t == "arr" else "")
    if t == "mask":
        return "mask" + str([bool(b) for b in ix[1]])
    if t == "blist":
        return str([bool(b) for b in ix[1]])
    if t == "ell":
        return "..."
    if t == "unit":
        return "()"
    if t == "tup":
        return ", ".join(_ix(i) for i in ix[1:])
    if t == "rmask":
        return ix[1]
    return str(ix)


def _opd(o):
    if o[0] == "var":
        return o[1]
    if o[0] in ("py", "pyf"):
        return repr(o[1])
    if o[0] == "sc":
        return f"np.{o[1]}({o[2]})"
    if o[0] == "col":
        return f"col{o[2]}"
    return str(o[1:])


def render_step(st):
    op = st["op"]
    d = ", ".join(step_dsts(st))
    lhs = (d + " = ") if d else ""
    if op == "getitem":
        return f"{lhs}{st['src']}[{_ix(st['ix'])}]"
    if op == "assign":
        return f"{st['tgt']}[{_ix(st['ix'])}] = {_opd(st['value'])}"
    if op == "fill":
        return f"{st['tgt']}.fill({_opd(st['value'])})"
    if op in ("new_rows",):
        return f"{lhs}RaggedArray({st['rows']}, dtype={st['dtype']})"
    if op == "new_flat":
        return f"{lhs}RaggedArray({'np.frombuffer(bytearray) ' if st.get('via') else ''}{st['flat']}, {st['lengths']}) [{st['dtype']}]"
    if op == "new_np":
        return f"{lhs}from_numpy_array({st['matrix']} shape {st['shape']}) [{st['dtype']}]"
    if op in ("ufunc2", "pyop2"):
        return f"{lhs}{st['f']}({_opd(st['a'])}, {_opd(st['b'])})"
    args = {k: v for k, v in st.items() if k not in ("op", "dst", "dst2")}
    return f"{lhs}{op}({args})"


def render_act(a):
    if a["k"] == "obs":
        return "obs " + render_step(a["step"]) + (f" !alloc-fail@{a['fail_alloc']}" if a.get("fail_alloc") is not None else "")
    if a["k"] == "ballast":
        return f"ballast({a['n']} live arrays with unread selections)"
    return f"{a['k']}({a['v']})"
