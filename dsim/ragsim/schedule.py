"""The scheduler's choices: where reads / forced materialisations / re-freshenings are injected.

A schedule is {"eager": bool, "acts": [[gap, action], ...]}; gap g lies before program step g
(gap len(program) lies before the final dump).  Actions:
  {"k": "obs", "step": <read-only step dict>}   result dropped, exception swallowed
  {"k": "force", "v": var}                      var.ravel(): the minimal "flush now"
  {"k": "freshen", "v": var}                    rebind var to RaggedArray(var.ravel().copy(), var.lengths.copy())
Placement is biased towards variables that are syntactically pending (created by a selection and
not yet used by a materialising step of the program text).
"""
from .execute import step_reads, step_dsts, is_write
from .gen import gen_rowsel, gen_colslice, _val, ALL_DTYPES
from .syntax import Syn

LAZY = {"eager": False, "acts": []}
EAGER = {"eager": True, "acts": []}

_SWARM = {"neg_step_bias": 0.3, "oob_bias": 0.1, "wild_rate": 0.2}


class Layout:
    """Where each variable is created / used, from the program text and the scout's outcomes."""

    def __init__(self, program, outcomes, meta):
        self.program = program
        self.meta = meta
        self.created = {}
        self.pending_until = {}     # var -> first step index whose text certainly materialises it
        self.uses = {}
        self.write_steps = []
        syn = Syn()
        for i, (st, o) in enumerate(zip(program, outcomes)):
            before = set(syn.sure)
            syn.feed(i, st, o)
            for d in step_dsts(st):
                if d in syn.vars and d in meta:
                    self.created[d] = i
            for r in step_reads(st):
                self.uses.setdefault(r, []).append(i)
            for v in syn.sure - before:
                self.pending_until.setdefault(v, i)
            if is_write(st):
                self.write_steps.append(i)
        self.sel_vars = [v for v in self.created if v in syn.parent]
        self.syn = syn
        self.n = len(program)

    def scope(self, gap):
        return [v for v, c in self.created.items() if c < gap]

    def pending_at(self, gap):
        return [v for v in self.sel_vars
                if self.created[v] < gap and self.pending_until.get(v, self.n + 1) >= gap]

    def choose_site(self, rng):
        """(gap, var) with the documented bias."""
        if not self.created:
            return None
        if self.sel_vars and rng.random() < 0.5:
            v = rng.choice(self.sel_vars)
            c = self.created[v]
            hi = min(self.pending_until.get(v, self.n), self.n)
            r = rng.random()
            if r < 0.4:
                gap = c + 1
            elif r < 0.7:
                nxt = [u for u in self.uses.get(v, []) if u > c]
                gap = nxt[0] if nxt else self.n
            elif r < 0.85 and self.write_steps:
                ws = [w + 1 for w in self.write_steps if w + 1 > c]
                gap = rng.choice(ws) if ws else c + 1
            else:
                gap = rng.randint(c + 1, max(c + 1, hi))
            # the target may also be a relative of v (its source): reads of one array must not change another
            if rng.random() < 0.25 and v in self.syn.parent and self.created.get(self.syn.parent[v], 1 << 30) < gap:
                v = self.syn.parent[v]
            return min(gap, self.n), v
        v = rng.choice(sorted(self.created, key=lambda s: int(s[1:])))
        gap = rng.randint(self.created[v] + 1, self.n)
        return gap, v


def gen_observer(rng, v, layout, gap):
    """One read-only API call on v (every kind listed in property C10)."""
    m = layout.meta[v]
    n, lens, dt = m["n"], m["lengths"], m["dtype"]
    kind = rng.choice(OBS_KINDS)
    scope = [w for w in layout.scope(gap) if not layout.meta[w]["opaque"]]
    same = [w for w in scope if layout.meta[w]["lengths"] == lens]
    if kind.startswith("read:"):
        f = kind[5:]
        st = {"op": "read", "src": v, "f": f}
        if f == "equals":
            st["other"] = rng.choice(same) if same else v
        return st
    if kind == "row":
        i = rng.randint(-n, n - 1) if n and rng.random() < 0.85 else rng.choice([n, -n - 1])
        return {"op": "getitem", "src": v, "ix": ["int", i]}
    if kind == "elem":
        rows = [r for r in range(n) if lens[r] > 0]
        if not rows:
            return {"op": "getitem", "src": v, "ix": ["tup", ["int", 0], ["int", 0]]}
        r = rng.choice(rows)
        return {"op": "getitem", "src": v, "ix": ["tup", ["int", r], ["int", rng.randint(-lens[r], lens[r] - 1)]]}
    if kind == "elems":
        rows = [r for r in range(n) if lens[r] > 0]
        if not rows:
            return {"op": "read", "src": v, "f": "tolist"}
        rs = [rng.choice(rows) for _ in range(rng.randint(1, 3))]
        return {"op": "getitem", "src": v, "ix": ["tup", ["list", rs], ["list", [rng.randint(0, lens[r] - 1) for r in rs]]]}
    if kind == "rows_j":
        rs, _ = gen_rowsel(rng, n, _SWARM)
        mn = min(lens, default=0)
        return {"op": "getitem", "src": v, "ix": ["tup", rs, ["int", rng.randint(0, max(mn - 1, 0))]]}
    if kind == "i_cols":
        c, _ = gen_colslice(rng, max(lens, default=0), _SWARM)
        return {"op": "getitem", "src": v, "ix": ["tup", ["int", rng.randint(-n, n - 1) if n else 0], c]}
    if kind == "rowsel":
        rs, _ = gen_rowsel(rng, n, _SWARM)
        return {"op": "getitem", "src": v, "ix": rs}
    if kind == "rowcol":
        rs, _ = gen_rowsel(rng, n, _SWARM)
        c, _ = gen_colslice(rng, max(lens, default=0), _SWARM)
        return {"op": "getitem", "src": v, "ix": ["tup", rs, c]}
    if kind == "whole":
        return {"op": "getitem", "src": v, "ix": [rng.choice(["ell", "unit"])]}
    if kind == "maskget":
        ms = [w for w in same if layout.meta[w]["dtype"] == "bool"]
        if ms:
            return {"op": "getitem", "src": v, "ix": ["rmask", rng.choice(ms)]}
        return {"op": "read", "src": v, "f": "iter"}
    if kind == "ufunc1":
        f = "logical_not" if dt == "bool" else rng.choice(["negative", "abs", "square", "sign"])
        return {"op": "ufunc1", "f": f, "src": v}
    if kind == "ufunc2":
        r = rng.random()
        if r < 0.35:
            other = ["py", 1] if dt != "bool" else ["py", True]
        elif r < 0.6:
            other = ["col", dt, [_val(rng, dt) for _ in range(n)]]
            if dt.startswith("float") and rng.random() < 0.4:
                other = ["col", dt, [rng.choice([0.1, 2.5, 1e16, 1.0, -3.3, 1e-3]) for _ in range(n)]]
        else:
            other = ["var", rng.choice(same)] if same else ["py", 1]
        a, b = (["var", v], other) if rng.random() < 0.6 else (other, ["var", v])
        return {"op": "ufunc2", "f": rng.choice(["add", "multiply", "maximum", "equal", "less", "logical_and"]),
                "a": a, "b": b}
    if kind == "pyop":
        return {"op": "pyop2", "f": rng.choice(["add", "mul", "eq", "gt"]), "a": ["var", v], "b": ["py", 1]}
    if kind == "reduce":
        f = rng.choice(["sum", "prod", "any", "all", "max", "min", "mean"])
        via = rng.choice(["method", "np", "ufunc"]) if f != "mean" else rng.choice(["method", "np"])
        axis = rng.choice([None, -1, -1, 1])
        return {"op": "reduce", "src": v, "f": f, "axis": axis, "via": via,
                "keepdims": rng.random() < 0.2 and axis is not None and via != "ufunc"}
    if kind == "colagg":
        f = rng.choice(["sum0", "mean0", "col_counts", "colvals"])
        st = {"op": "colagg", "src": v, "f": f}
        if f == "colvals":
            st["j"] = rng.randint(0, max(max(lens, default=0) - 1, 0))
        return st
    if kind == "scan":
        f = rng.choice(["cumsum", "np_cumsum", "acc_add", "acc_subtract", "acc_bitwise_xor", "sort", "unique",
                        "unique_counts", "diff"])
        st = {"op": "scan", "src": v, "f": f}
        if f == "diff":
            st["n"] = rng.choice([1, 2])
        return st
    if kind == "concat":
        other = rng.choice(scope) if scope else v
        srcs = [v, other] if rng.random() < 0.5 else [other, v]
        return {"op": "concat", "srcs": srcs, "axis": 0}
    if kind == "concat1":
        others = [w for w in scope if layout.meta[w]["n"] == n]
        other = rng.choice(others) if others else v
        return {"op": "concat", "srcs": [v, other], "axis": 1}
    if kind == "like":
        return {"op": "like", "src": v, "f": rng.choice(["zeros_like", "ones_like", "empty_like"])}
    if kind == "where":
        ms = [w for w in same if layout.meta[w]["dtype"] == "bool"]
        if ms:
            return {"op": "where", "mask": rng.choice(ms), "x": ["var", v], "y": ["py", 0]}
        if dt == "bool":
            return {"op": "where", "mask": v, "x": ["var", v], "y": ["py", False]}
        return {"op": "nonzero", "src": v}
    if kind == "nonzero":
        return {"op": "nonzero", "src": v, "via": rng.choice(["method", "np"])}
    if kind == "rslice":
        return {"op": "rslice", "src": v, "starts": [rng.randint(0, l) for l in lens], "ends": None}
    if kind == "padded":
        return {"op": "padded", "src": v, "side": rng.choice(["left", "right"]), "fill": 0}
    if kind == "astype":
        return {"op": "astype", "src": v, "dtype": rng.choice(ALL_DTYPES)}
    if kind == "to_numpy":
        return {"op": "to_numpy", "src": v}
    if kind == "save":
        return {"op": "save", "src": v}
    if kind == "subset":
        ms = [w for w in same if layout.meta[w]["dtype"] == "bool"]
        if ms:
            return {"op": "subset", "src": v, "mask": rng.choice(ms)}
        return {"op": "read", "src": v, "f": "repr"}
    raise ValueError(kind)


OBS_KINDS = (["read:" + f for f in ("repr", "str", "iter", "tolist", "ravel", "len", "size", "shape", "lengths",
                                    "dtype", "equals")]
             + ["row", "row", "elem", "elem", "elems", "rows_j", "i_cols", "rowsel", "rowcol", "whole", "maskget",
                "ufunc1", "ufunc2", "ufunc2", "pyop", "reduce", "reduce", "colagg", "colagg", "scan", "scan",
                "concat", "concat1", "like", "where", "nonzero", "rslice", "padded", "padded", "astype", "to_numpy",
                "save", "subset"])


def observer_schedule(rng, layout, max_acts=None, fault_rate=0.0):
    n_acts = rng.randint(1, max_acts or max(2, min(8, layout.n)))
    acts = []
    for _ in range(n_acts):
        site = layout.choose_site(rng)
        if site is None:
            break
        gap, v = site
        if layout.meta[v]["opaque"]:
            continue
        if rng.random() < 0.12:
            acts.append([gap, {"k": "force", "v": v}])
        else:
            act = {"k": "obs", "step": gen_observer(rng, v, layout, gap)}
            if rng.random() < fault_rate:
                act["fail_alloc"] = rng.choice([0, 0, 1, 1, 2, 3, 4, 5, 6, 8, 10, 13])
            acts.append([gap, act])
    acts.sort(key=lambda a: a[0])
    return {"eager": False, "acts": acts}


def refresh_schedule(rng, layout, max_acts=None):
    n_acts = rng.randint(1, max_acts or max(2, min(8, layout.n)))
    acts = []
    for _ in range(n_acts):
        site = layout.choose_site(rng)
        if site is None:
            break
        gap, v = site
        acts.append([gap, {"k": "freshen" if rng.random() < 0.7 else "force", "v": v}])
    acts.sort(key=lambda a: a[0])
    return {"eager": False, "acts": acts}
