"""Concrete, JSON-serialisable encodings of indices / operands, and normalisation of observations."""
import numpy as np

# ---------------------------------------------------------------------------------------------
# decoding of program text into live Python objects


# Arrays handed to the library as arguments of the current call (index arrays, masks, column vectors, row values),
# with a snapshot taken before the call: the executor checks afterwards that the call did not modify them.
TRACK = None


def _tracked(arr):
    if TRACK is not None:
        TRACK.append((arr, arr.copy()))
    return arr


def dec_index(ix, env):
    t = ix[0]
    if t == "int":
        return int(ix[1])
    if t == "npint":
        return np.int64(ix[1])
    if t == "int0d":
        return np.array(int(ix[1]))
    if t == "sl":
        if len(ix) > 4 and ix[4] == "np":      # bounds given as numpy integers
            return slice(*(None if b is None else np.int64(b) for b in ix[1:4]))
        return slice(ix[1], ix[2], ix[3])
    if t == "list":
        return [int(i) for i in ix[1]]
    if t == "arr":
        return _tracked(np.array(ix[1], dtype=ix[2] if len(ix) > 2 else np.int64))
    if t == "mask":
        return _tracked(np.array(ix[1], dtype=bool))
    if t == "blist":
        return [bool(b) for b in ix[1]]
    if t == "ell":
        return Ellipsis
    if t == "unit":
        return ()
    if t == "tup":
        return tuple(dec_index(i, env) for i in ix[1:])
    if t == "rmask":
        return env[ix[1]]
    raise ValueError(f"bad index encoding {ix!r}")


def index_vars(ix):
    if ix[0] == "rmask":
        return [ix[1]]
    if ix[0] == "tup":
        out = []
        for i in ix[1:]:
            out += index_vars(i)
        return out
    return []


_SPECIAL = {"nan": float("nan"), "inf": float("inf"), "-inf": -float("inf")}


def dec_number(x):
    return _SPECIAL[x] if isinstance(x, str) else x


def dec_operand(op, env):
    t = op[0]
    if t == "var":
        return env[op[1]]
    if t == "py":
        return op[1]
    if t == "pyf":
        return float(dec_number(op[1]))
    if t == "sc":
        return np.dtype(op[1]).type(dec_number(op[2]))
    if t == "col":
        return _tracked(np.array([dec_number(x) for x in op[2]], dtype=op[1]).reshape(-1, 1))
    if t == "row":
        return _tracked(np.array([dec_number(x) for x in op[2]], dtype=op[1]))
    if t == "list":
        return [dec_number(x) for x in op[1]]
    raise ValueError(f"bad operand encoding {op!r}")


def operand_vars(op):
    return [op[1]] if op[0] == "var" else []


# ---------------------------------------------------------------------------------------------
# normalisation of observations into comparable, JSON-able values


def _fl(v):
    return repr(float(v))


def norm(x, drop_dtype=False):
    """Normalise an observed value.  Never called on a RaggedArray (reading one perturbs it)."""
    if x is None:
        return None
    if isinstance(x, np.ndarray):
        k = x.dtype.kind
        flat = np.asarray(x).ravel().tolist()
        if k == "f":
            vals = [_fl(v) for v in flat]
        elif k == "c":
            vals = [repr(v) for v in flat]
        elif k == "O":
            vals = [norm(v) for v in flat]
        else:
            vals = flat
        return ["nd", None if drop_dtype else x.dtype.name, list(x.shape), vals]
    if isinstance(x, np.generic):
        v = x.item()
        if isinstance(v, float):
            v = _fl(v)
        elif isinstance(v, complex):
            v = repr(v)
        return ["sc", None if drop_dtype else x.dtype.name, v]
    if isinstance(x, bool):
        return ["py", "bool", x]
    if isinstance(x, int):
        return ["py", "int", x]
    if isinstance(x, float):
        return ["py", "float", _fl(x)]
    if isinstance(x, str):
        return ["str", x]
    if isinstance(x, (tuple, list)):
        return ["seq", [norm(i, drop_dtype) for i in x]]
    if isinstance(x, np.dtype):
        return ["dtype", x.name]
    if isinstance(x, type):
        return ["type", x.__name__]
    return ["obj", type(x).__name__]
