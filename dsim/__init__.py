"""dsim - deterministic simulation harness for bionumpy/npstructures (see /verif/DESIGN.md)."""
