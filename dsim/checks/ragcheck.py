"""Checks C06, C10 and C19: RaggedArray programs under a read / refresh scheduler (engine ragsim)."""
import collections
import hashlib
import json
import os
import subprocess
import sys
import time

from ..core import pool, evidence, sut, reach
from ..core.seeds import rng_for, verif_seed
from ..ragsim import gen, schedule
from ..ragsim.case import (make_case, side, evaluate, div_class, explained_by_stale_alias, pretty,
                           hazard_info, neutralise_text)
from ..ragsim.execute import run, first_divergence, step_dsts, step_reads, ballast
from ..ragsim.minimise import minimise
from ..ragsim.syntax import analyse

# runs = number of generated programs; k = compared schedules per program
TIERS = {
    "quick": {"C06": {"runs": 30000, "k": 3}, "C10": {"runs": 30000, "k": 4}, "C19": {"runs": 30000, "k": 1}},
    "thorough": {"C06": {"runs": 400000, "k": 8}, "C10": {"runs": 300000, "k": 8}, "C19": {"runs": 600000, "k": 2}},
}
HAZARD_EVERY = 7          # C10: every 7th run is a hazard program (stale-alias stream)
MAX_RAW_PER_CHUNK = 12
MAX_CLASSES = 12
MAX_MIN_PER_CLASS = 4
MINIMISE_BUDGET_S = 120
BALLAST = 1100
GIANT_EVERY = 500        # every 500th run uses one array beyond 2**16 cells


def _h(s):
    return int.from_bytes(hashlib.blake2b(s.encode(), digest_size=8).digest(), "big")


def sched_sig(s):
    if s.get("eager"):
        return "eager"
    parts = []
    for g, a in s.get("acts", []):
        if a["k"] == "ballast":
            parts.append("ballast")
        elif a["k"] == "obs":
            parts.append("o:" + a["step"]["op"] + ":" + str(a["step"].get("f", a["step"].get("ix", [""])[0]))
                         + ("!" if a.get("fail_alloc") is not None else ""))
        else:
            parts.append(a["k"])
    return ",".join(parts)


def schedule_touches_pending(s, lay):
    if s.get("eager"):
        return bool(lay.sel_vars)
    for gap, a in s.get("acts", []):
        if a["k"] == "ballast":
            continue
        targets = step_reads(a["step"]) if a["k"] == "obs" else [a["v"]]
        pend = lay.pending_at(gap)
        if any(t in pend for t in targets):
            return True
    return False


def mixed_schedule(rng, lay):
    """C19: one schedule mixing observers, forces and re-freshenings."""
    a = schedule.observer_schedule(rng, lay)["acts"] + schedule.refresh_schedule(rng, lay)["acts"]
    a.sort(key=lambda x: x[0])
    return {"eager": False, "acts": a}


def one_run(prop, seed, i, k, acc, r01_open=False):
    # Two program streams.  "hf": programs in which no write goes through an array while an unread selection of
    # it is alive (the generator reads the selection first); "hz": writes are placed freely and biased towards
    # exactly that situation.  While the stale-alias finding R01 was open, "hz" divergences of C10 were attributed
    # to it by the hazard/taint rule and C06 explored "hf" only; since its repair (r01_open is False) both streams
    # are explored by all three checks and every divergence is a violation.
    if r01_open:
        hazard_stream = prop == "C19" or (prop == "C10" and i % HAZARD_EVERY == HAZARD_EVERY - 1)
    else:
        hazard_stream = prop == "C19" or i % 2 == 1
    stream = "hz" if hazard_stream else "hf"
    rng = rng_for(seed, "rag", stream, i)
    giant = i % GIANT_EVERY == GIANT_EVERY - 1
    prog, meta, g = gen.generate(rng, hazard_free=not hazard_stream, giant=giant)
    if giant:
        acc["giant_runs"] += 1
    lay = schedule.Layout(prog, g.ex.out, meta)
    srng = rng_for(seed, "rag", stream, i, prop)
    psig = g.signature()
    acc["programs"] += 1
    acc["steps_generated"] += len(prog)
    for s in g.sig:
        acc["kind:" + s.split("[")[0].split(":")[0]] += 1
    pairs = []
    if prop == "C06":
        ref = run(prog, schedule.LAZY)
        scheds = [schedule.EAGER] + [schedule.refresh_schedule(srng, lay) for _ in range(k)]
        for s in scheds:
            pairs.append((side(schedule.LAZY), ref, side(s), None))
    elif prop == "C10":
        ref = run(prog, schedule.LAZY)
        for j in range(k):
            # every other schedule also arms allocation failures inside a third of its observers
            fr = 0.35 if j % 2 == 1 else 0.0
            pairs.append((side(schedule.LAZY), ref, side(schedule.observer_schedule(srng, lay, fault_rate=fr)), None))
    else:
        scheds = [schedule.LAZY] + [mixed_schedule(srng, lay) for _ in range(k)]
        for s in scheds:
            pairs.append((side(s, "int64"), None, side(s, "int32"), None))
        ref = None
    if ref is not None:
        syn = analyse(prog, ref.out)
        if syn.hazard_steps:
            if not hazard_stream and r01_open:
                acc["skipped_hazard_in_hf_stream"] += 1
                return
            acc["hazard_programs"] += 1
    run_digest = hashlib.sha256(json.dumps(prog, sort_keys=True).encode())
    nontrivial_any = False
    acc["__scout_out__"] = g.ex.out
    # every 40th run executes in a process that already holds 1100 live arrays with live unread selections
    n_ballast = BALLAST if i % 40 == 7 else 0
    if n_ballast:
        acc["runs_with_ballast"] += 1
    if n_ballast and i % 80 == 47:
        # half of the ballast runs build the ballast in the MIDDLE of the program instead (in the compared schedule
        # only): the program's own selections are then the oldest tracked ones
        n_ballast = 0
        brng = rng_for(seed, "rag", stream, i, "ballast")
        for sa, ea, sb, eb in pairs:
            gap = brng.randint(1, max(1, len(prog)))
            sb["schedule"] = {"eager": sb["schedule"].get("eager", False),
                              "acts": sorted(sb["schedule"].get("acts", []) + [[gap, {"k": "ballast", "n": BALLAST}]],
                                             key=lambda x: x[0])}
        acc["runs_with_mid_program_ballast"] += 1
    with ballast(n_ballast):
        _compare_all(prop, prog, pairs, acc, i, seed, stream, hazard_stream, r01_open, lay, psig, run_digest, n_ballast)
    nontrivial_any = acc.pop("__nontrivial_any__", False)
    acc.pop("__scout_out__", None)
    if ref is None and prop == "C19" and analyse(prog, run(prog, pairs[0][0]["schedule"], "int64").out).hazard_steps:
        acc["hazard_programs"] += 1
    if nontrivial_any:
        acc["nontrivial_runs"] += 1
    if len(acc["__samples__"]) < 2 and nontrivial_any and len(prog) <= 8:
        acc["__samples__"].append({"run_index": i, "program_and_schedules": pretty(
            make_case(prop, prog, pairs[-1][0], pairs[-1][2])).split("\n")})
    acc["__digests__"].append(run_digest.hexdigest()[:16])


def _compare_all(prop, prog, pairs, acc, i, seed, stream, hazard_stream, r01_open, lay, psig, run_digest, n_ballast):
    nontrivial_any = False
    for st_, o_ in zip(prog, acc["__scout_out__"]):
        if st_["op"] == "getitem" and st_.get("dst"):
            acc["sel_steps"] += 1
            if o_[0] == "ok":
                acc["sel_steps_ok"] += 1
    for sa, ea, sb, eb in pairs:
        if ea is None or n_ballast:       # (under ballast both executions must run inside that environment)
            ea = run(prog, sa["schedule"], sa["width"])
        probe = None
        if i % 4 == 0:
            def probe(ex, when, idx, _acc=acc):
                if when == "after":
                    _acc["__states__"].add(_h(repr(ex.state_vector())))
        eb = run(prog, sb["schedule"], sb["width"], probe=probe)
        acc["executions"] += 2 if prop == "C19" else 1
        acc["steps_executed"] += len(prog) * (2 if prop == "C19" else 1)
        for kx, vx in eb.stats.items():
            acc["inj:" + kx] += vx
        # Non-triviality is decided from the program text and the schedule (never from the library's internals,
        # so that an implementation with eager selections is not mistaken for a vacuous run): the schedule acts
        # on a variable that is *syntactically pending* at that point - created by a selection and not yet used
        # by a step that certainly reads it.  For C19: some row selection / row access of the program returned
        # normally under both widths.
        if prop == "C19":
            nontrivial = any(st_["op"] == "getitem" and oa[0] == "ok" and ob[0] == "ok"
                             for st_, oa, ob in zip(prog, ea.out, eb.out))
        else:
            nontrivial = schedule_touches_pending(sb["schedule"], lay)
        ssig = sched_sig(sb["schedule"])
        acc["__distinct__"].add(_h(psig + "##" + ssig))
        if nontrivial:
            nontrivial_any = True
            acc["__distinct_nontrivial__"].add(_h(psig + "##" + ssig))
        run_digest.update(json.dumps([sb, ea.out, ea.dump, ea.held_dump, eb.out, eb.dump, eb.held_dump],
                                     sort_keys=True).encode())
        if prop == "C19":
            neutralise_text({"program": prog, "a": sa, "b": sb}, ea, eb)
        d = first_divergence(ea, eb)
        if d is not None:
            case = make_case(prop, prog, sa, sb, hazard_free=(r01_open and not hazard_stream),
                             origin={"seed": seed, "stream": stream, "index": i})
            if n_ballast:
                case["ballast"] = n_ballast
            if r01_open and prop == "C10" and hazard_stream and explained_by_stale_alias(case, ea, eb):
                acc["stale_alias_divergences"] += 1
                continue
            acc["divergences"] += 1
            if len(acc["__raw__"]) < MAX_RAW_PER_CHUNK:
                case["divergence"] = d
                acc["__raw__"].append(case)
            break
    acc["__nontrivial_any__"] = nontrivial_any


def explore_chunk(lo, hi, payload):
    prop, seed, k = payload["prop"], payload["seed"], payload["k"]
    acc = collections.Counter()
    for key in ("__states__", "__distinct__", "__distinct_nontrivial__"):
        acc[key] = set()
    for key in ("__raw__", "__samples__", "__digests__"):
        acc[key] = []
    acc["__idx32__"] = [0]
    acc["__idx32_seen__"] = [0]
    restore = None
    if prop == "C19":
        from npstructures.raggedshape import ViewBase
        import numpy as np
        orig = getattr(ViewBase, "_index_rows", None)
        if orig is not None:
            def counted(self, idx, _o=orig, _c=acc["__idx32__"], _a=acc):
                if self._dtype == np.int32:
                    _c[0] += 1
                    _a["idx32:" + ("slice" if isinstance(idx, slice) and idx.step in (None, 1) else
                                   "slice_step" if isinstance(idx, slice) else
                                   "int" if np.ndim(idx) == 0 else
                                   "mask" if getattr(idx, "dtype", None) == bool else "list")] += 1
                return _o(self, idx)
            ViewBase._index_rows = counted
            restore = (ViewBase, orig)
    try:
        for i in range(lo, hi):
            pool.set_run_alarm(60)
            try:
                one_run(prop, seed, i, k, acc, payload.get("r01_open", False))
            finally:
                pool.clear_run_alarm()
    finally:
        if restore:
            restore[0]._index_rows = restore[1]
    out = dict(acc)
    out.pop("__idx32_seen__")
    out["__idx32__"] = acc["__idx32__"][0]
    return out


def merge(results):
    tot = collections.Counter()
    sets = {k: set() for k in ("__states__", "__distinct__", "__distinct_nontrivial__")}
    lists = {k: [] for k in ("__raw__", "__samples__", "__digests__")}
    for r in results:
        for k, v in r.items():
            if k in sets:
                sets[k] |= v
            elif k in lists:
                lists[k] += v
            else:
                tot[k] += v
    return tot, sets, lists


def replay_fresh(path):
    """Replay a file in a fresh interpreter; True iff it reports the violation again."""
    env = dict(os.environ)
    env["PYTHONHASHSEED"] = "0"
    p = subprocess.run([sys.executable, "-m", "dsim", "replay", path], cwd=evidence.VERIF, env=env,
                       capture_output=True, text=True, timeout=300)
    return p.returncode == 1 and "VIOLATION" in p.stdout, p.stdout + p.stderr


ASSUMPTIONS = {
    "C06": ["sampling, not enumeration: a clean batch is evidence, not proof",
            "differential oracle: the eager schedule's arrays are rebuilt with RaggedArray(v.ravel().copy(), "
            "v.lengths.copy()); an error common to fresh and derived arrays is invisible (that is C02's territory)",
            "half of the programs place writes freely, including writes through an array while an unread selection of "
            "it is alive (possible since the stale-alias finding R01 was repaired)",
            "numpy is real and trusted; only raised/returned is compared for failing steps, not exception types",
            "float elements of constructed arrays are multiples of 0.25 in a small range (plus nan / inf / -0.0), so that "
            "sums are exact whatever the association order; only column-vector operands carry generic reals, and "
            "results computed from them are compared bit for bit between schedules (same code, same buffers, same "
            "order of operations - no divergence seen in any soak)"],
    "C10": ["sampling, not enumeration", "observers are the read-only operations listed in the property; their "
            "results are dropped", "half of the programs place writes freely, including writes through an array while an "
            "unread selection of it is alive; nothing is attributed to a known finding any more (R01 is repaired)",
            "numpy is real and trusted"],
    "C19": ["sampling, not enumeration", "both configurations are set before the first array of an execution exists; "
            "switching the width while arrays are alive is outside the property",
            "row lengths / shape are compared by value (their dtype is the index dtype by definition)",
            "all sizes far below 2**31"],
}

RULES = {
    "C06": "case = (program generated by scouting from run seed) x (schedule: eager-fresh or random FRESHEN/FORCE "
           "placement); distinct = distinct (abstract program signature [step kinds, selector classes, chain depth, "
           "dtype kinds, empty-row pattern], schedule signature); non-trivial = the schedule re-freshens or forces at "
           "least one variable that is syntactically pending at that point (created by a selection and not yet used "
           "by a step that certainly reads it) - decided from program text and schedule, not from library internals",
    "C10": "case = (program) x (schedule of injected read-only observers / forced materialisations); distinct as "
           "for C06 with the observer kinds as schedule signature; non-trivial = at least one injected read or forced "
           "materialisation targets a variable that is syntactically pending at that point",
    "C19": "case = (program, schedule) executed under 64-bit and 32-bit index width; distinct = distinct (program "
           "signature, schedule signature); non-trivial = some row selection / row access of the program returned "
           "normally under both widths (the width-dependent gather; its call count on the 32-bit path is reported "
           "separately as a probe)",
}


def main(prop, tier, runs=None, k=None, write=True):
    t0 = time.time()
    seed = verif_seed()
    cfg = dict(TIERS[tier][prop])
    if runs:
        cfg["runs"] = runs
    if k:
        cfg["k"] = k
    r01_open = any(f["id"] == "R01" for f in evidence.open_findings("C10"))
    payload = {"prop": prop, "seed": seed, "k": cfg["k"], "r01_open": r01_open}
    results = pool.run_chunks(explore_chunk, cfg["runs"], payload)
    tot, sets, lists = merge(results)
    sel_total = tot.get("sel_steps", 0)
    if sel_total and tot.get("sel_steps_ok", 0) < 0.3 * sel_total:
        raise pool.HarnessFailure(f"vacuous exploration: only {tot.get('sel_steps_ok', 0)} of {sel_total} selection steps "
                                  "returned normally in the reference executions - the workload does not reach the "
                                  "behaviour under test")
    if len(sets["__distinct_nontrivial__"]) < 2:
        # e.g. a tree in which every selection raises: all histories are trivially equal.  That is not "held".
        raise pool.HarnessFailure("vacuous exploration: the scheduler never changed the hidden state of any array "
                                  "(no non-trivial case) - the workload does not reach the behaviour under test")
    digest = hashlib.sha256("".join(lists["__digests__"]).encode()).hexdigest()[:32]

    # known findings: replay stored witnesses; a finding is reported while its witness still fails or while
    # exploration still attributes divergences to it through its signature predicate
    known_lines = []
    for f in evidence.open_findings(prop):
        wpath = os.path.join(evidence.VERIF, f["witness"])
        with open(wpath) as fh:
            wcase = json.load(fh)
        d, ea, eb = evaluate(wcase)
        attributed = tot.get("stale_alias_divergences", 0) if f["id"] == "R01" else 0
        if d is not None or attributed:
            known_lines.append(f"KNOWN-FINDING: property={prop} {f['id']} {f['what']}")

    # minimise a few raw violations per class
    violations = []
    irreproducible = []
    by_class = collections.OrderedDict()
    for case in lists["__raw__"]:
        by_class.setdefault(div_class(case, case["divergence"]), []).append(case)
    seen = set()
    t_min = time.time()
    for cls, cases in list(by_class.items())[:MAX_CLASSES]:
        for case in cases[:MAX_MIN_PER_CLASS]:
            if violations and time.time() - t_min > MINIMISE_BUDGET_S:
                break       # enough minimised witnesses; never let reporting run into the command's timeout
            small, d, used = minimise(case, budget=1500 if time.time() - t_min < MINIMISE_BUDGET_S / 2 else 300)
            if d is None:
                # seen in a worker but not here: the behaviour depends on process-wide state of the library that
                # the case does not carry (only possible for code that has such state); try the other cases
                irreproducible.append(f"did not reproduce in the parent process: {case['origin']}")
                continue
            key = json.dumps([small["program"], small["a"], small["b"]], sort_keys=True)
            if key in seen:
                continue
            seen.add(key)
            tag = hashlib.sha256(key.encode()).hexdigest()[:12]
            path = evidence.save_replay(small, prop, tag)
            ok, out = replay_fresh(path)
            if not ok:
                # The shrunk case depends on state of the process that shrank it (a library with process-wide
                # state).  Fall back to the case exactly as it was found; if even that does not reproduce in a
                # fresh interpreter it is not reported (a replay file must reproduce), only counted.
                raw = dict(case)
                path = evidence.save_replay(raw, prop, tag + "-unminimised")
                ok, out2 = replay_fresh(path)
                if not ok:
                    irreproducible.append(out2[-600:])
                    continue
                small, d = raw, raw.get("divergence")
            violations.append((path, small, d))

    if irreproducible and not violations:
        raise pool.HarnessFailure("divergences were observed but none of them reproduces in a fresh interpreter "
                                  "(behaviour depends on process-wide state that a replay file cannot carry):\n"
                                  + irreproducible[0])
    wall = time.time() - t0
    inj = {k2[4:]: v for k2, v in sorted(tot.items()) if k2.startswith("inj:")}
    kinds = {k2[5:]: v for k2, v in sorted(tot.items()) if k2.startswith("kind:")}
    cov = {
        "evaluations": int(tot["executions"]),
        "distinct_nontrivial": len(sets["__distinct_nontrivial__"]),
        "rule": RULES[prop],
        "samples": lists["__samples__"][:3] or [{"note": "no small non-trivial sample in this run"}],
        "programs": int(tot["programs"]),
        "distinct_cases": len(sets["__distinct__"]),
        "nontrivial_runs": int(tot["nontrivial_runs"]),
        "steps_executed": int(tot["steps_executed"]),
        "hidden_state_vectors_reached": len(sets["__states__"]),
        "hidden_state_measure": "distinct tuples (per variable: contiguous | RaggedView | RaggedView2 step class, "
                                "has-empty-rows) observed at step boundaries, probed on every 4th run",
        "faults_injected": inj,
        "program_step_kinds": kinds,
        "programs_with_a_write_while_an_unread_selection_of_the_target_is_alive": int(tot.get("hazard_programs", 0)),
        "stale_alias_divergences_attributed_to_R01": int(tot.get("stale_alias_divergences", 0)),
        "runs_with_ballast_of_1100_live_unread_selections": int(tot.get("runs_with_ballast", 0)),
        "of_which_ballast_built_in_mid_program": int(tot.get("runs_with_mid_program_ballast", 0)),
        "runs_with_an_array_beyond_65536_cells": int(tot.get("giant_runs", 0)),
        "selection_steps_returning_normally": f"{int(tot.get('sel_steps_ok', 0))} of {int(tot.get('sel_steps', 0))}",
        "runs_per_hour": int(tot["programs"] / max(wall, 1e-9) * 3600),
        "executions_per_hour": int(tot["executions"] / max(wall, 1e-9) * 3600),
        "workers": pool.n_workers(),
        "simulated_time": "none: no clock in this property; the unit of progress is the program step",
        "real_components": ["npstructures (working tree of /repo, digest " + sut.tree_digest() + ")", "numpy"],
        "stubbed_components": ["io.BytesIO as the disk behind RaggedArray.save/load"],
        "event_log_digest": digest,
        "divergences_seen": int(tot.get("divergences", 0)),
        "known_findings_reported": known_lines,
    }
    sample_n = min(cfg["runs"], 150)
    cov["reach_sample"] = {"what": f"statement coverage of the anchored files over the first {sample_n} runs of this "
                                   "batch, re-executed in the parent process under coverage.py (non-gating)",
                           **reach.measure(["npstructures/raggedshape.py", "npstructures/raggedarray/base.py",
                                            "npstructures/raggedarray/indexablearray.py",
                                            "npstructures/raggedarray/__init__.py", "npstructures/arrayfunctions.py"],
                                           lambda: explore_chunk(0, sample_n, payload))}
    if prop == "C19":
        cov["index_rows_calls_on_int32_path"] = {k2[6:]: v for k2, v in sorted(tot.items()) if k2.startswith("idx32:")}
    for line in known_lines:
        print(line)
    for path, small, d in violations:
        print(f"VIOLATION property={prop} replay={path}")
        print(pretty(small))
        print("  first divergence:", json.dumps(d)[:600])
    if write:
        evidence.write_evidence(prop, tier, seed, cov, wall, len(violations), ASSUMPTIONS[prop])
    print(f"{prop} {tier}: {tot['programs']} programs, {tot['executions']} executions, "
          f"{len(sets['__distinct_nontrivial__'])} distinct non-trivial cases, "
          f"{len(violations)} violation(s), digest {digest}, {wall:.1f}s")
    return 1 if violations else 0
