"""Checks C11 (HashTable is a dictionary over a fixed key set) and C12 (Counter totals), engine hashsim."""
import collections
import hashlib
import json
import os
import time

from ..core import pool, evidence, sut, reach
from ..core.seeds import rng_for, verif_seed
from ..hashsim import gen
from ..hashsim.case import make_case, evaluate, minimise, pretty
from ..hashsim.execute import run
from .ragcheck import replay_fresh, _h

TIERS = {
    "quick": {"C11": {"runs": 80000}, "C12": {"runs": 20000, "k": 5}},
    "thorough": {"C11": {"runs": 2000000}, "C12": {"runs": 400000, "k": 8}},
}
MAX_RAW_PER_CHUNK = 10
MAX_CLASSES = 12
MAX_MIN_PER_CLASS = 2
MINIMISE_BUDGET_S = 120


def _family_writes_then_reads(ops):
    """non-trivial rule for C11: some write is later followed by a lookup on a handle of the same key
    family (the handle itself or one sharing its key storage)."""
    fam = {}
    written = set()
    for op in ops:
        o = op["op"]
        if o == "new":
            fam[op["dst"]] = op["dst"]
        elif o == "derive":
            fam[op["dst"]] = fam[op["src"]]
        elif o == "add":
            fam[op["dst"]] = fam[op["a"]]
        elif o in ("set", "setv", "fill", "count"):
            written.add(fam[op["h"]])
        elif o in ("get", "getv", "items", "contains", "eq"):
            h = op.get("h") or op.get("a")
            if fam[h] in written:
                return True
    return False


def run_c11(seed, i, acc):
    rng = rng_for(seed, "hash", "c11", i)
    ops, g = gen.gen_c11(rng)
    crng = rng_for(seed, "hash", "c11", i, "cfg")
    config = {}
    if crng.random() < 0.2:
        config["fast_off"] = True
    v, w = run(ops, config)
    acc["histories"] += 1
    acc["operations"] += len(ops)
    acc["audits"] += w.audits
    for k, x in w.stats.items():
        acc["st:" + k] += x
    sig = g.signature()
    acc["__distinct__"].add(_h(sig))
    if _family_writes_then_reads(ops):
        acc["nontrivial_runs"] += 1
        acc["__distinct_nontrivial__"].add(_h(sig))
    if len(set(g.info[h]["family"] for h in g.info)) < len(g.info):
        acc["histories_with_shared_key_storage"] += 1
    if g.P["faults"]:
        acc["faulty_stream_histories"] += 1
    else:
        acc["fault_free_stream_histories"] += 1
    if len(acc["__samples__"]) < 2 and 4 <= len(ops) <= 9:
        acc["__samples__"].append({"run_index": i, "history": pretty({"history": ops, "config": config}).split("\n")})
    digest = hashlib.sha256(json.dumps([ops, config, v, sorted(w.stats.items())], sort_keys=True, default=str).encode())
    acc["__digests__"].append(digest.hexdigest()[:16])
    if v is not None:
        acc["violations_raw"] += 1
        if len(acc["__raw__"]) < MAX_RAW_PER_CHUNK:
            c = make_case("C11", ops, config, origin={"seed": seed, "stream": "c11", "index": i})
            c["violation"] = v
            acc["__raw__"].append(c)


def run_c12(seed, i, k, acc):
    rng = rng_for(seed, "hash", "c12", i)
    wl = gen.gen_stream(rng)
    acc["streams"] += 1
    acc["samples_in_streams"] += len(wl["stream"])
    digest = hashlib.sha256(json.dumps(wl, sort_keys=True).encode())
    kinds = rng.sample(gen.DELIVERY_KINDS, min(k, len(gen.DELIVERY_KINDS)))
    totals = {}
    for j, kind in enumerate(kinds):
        drng = rng_for(seed, "hash", "c12", i, "d", j)
        mod = wl["mods"][j % len(wl["mods"])][0]
        mkind = wl["mods"][j % len(wl["mods"])][1]
        ops = gen.deliver(drng, wl, kind, mod)
        clock, ckind = gen.gen_clock(drng)
        config = {"clock": clock}
        if drng.random() < 0.3:
            config["fast_off"] = True
        v, w = run(ops, config)
        acc["histories"] += 1
        acc["operations"] += len(ops)
        acc["audits"] += w.audits
        acc["delivery:" + kind] += 1
        acc["clock:" + ckind] += 1
        acc["mod:" + mkind] += 1
        if config.get("fast_off"):
            acc["fast_path_forced_off"] += 1
        for kk, x in w.stats.items():
            acc["st:" + kk] += x
        sig = f"{wl['key_dtype']}:{wl['mag']}:{wl['init'][0]}:{min(len(wl['stream']), 50)}:{wl['noise_rate']}|{kind}|{mkind}"
        acc["__distinct__"].add(_h(sig + f"|{len(ops)}"))
        if w.stats.get("count_branch:array", 0) >= 1:
            acc["nontrivial_runs"] += 1
            acc["__distinct_nontrivial__"].add(_h(sig + f"|{len(ops)}"))
        digest.update(json.dumps([ops, v, sorted(w.stats.items())], sort_keys=True, default=str).encode())
        if len(acc["__samples__"]) < 2 and 3 <= len(ops) <= 7 and len(wl["stream"]) <= 12:
            acc["__samples__"].append({"run_index": i, "delivery": kind,
                                       "history": pretty({"history": ops, "config": {}}).split("\n")})
        if v is not None:
            acc["violations_raw"] += 1
            if len(acc["__raw__"]) < MAX_RAW_PER_CHUNK:
                c = make_case("C12", ops, config, origin={"seed": seed, "stream": "c12", "index": i, "delivery": kind})
                c["violation"] = v
                acc["__raw__"].append(c)
            break
        if kind != "duplicated" and kind != "with_noise" or True:
            # totals relative to the delivered multiset are already checked against the model; record the
            # cross-schedule relation explicitly for the deliveries that deliver exactly the stream
            if kind not in ("duplicated",):
                try:
                    got = w._peek(w.h["h0"])
                except Exception:
                    got = None
                if got is not None:
                    totals[kind] = got
    vals = list(totals.values())
    for a in vals[1:]:
        acc["cross_schedule_total_comparisons"] += 1
        if a != vals[0]:
            raise pool.HarnessFailure("totals differ between delivery schedules although every delivery matched the "
                                      f"model: stream index {i}")
    acc["__digests__"].append(digest.hexdigest()[:16])


def explore_chunk(lo, hi, payload):
    prop, seed = payload["prop"], payload["seed"]
    acc = collections.Counter()
    for key in ("__distinct__", "__distinct_nontrivial__"):
        acc[key] = set()
    for key in ("__raw__", "__samples__", "__digests__"):
        acc[key] = []
    for i in range(lo, hi):
        pool.set_run_alarm(60)
        try:
            if prop == "C11":
                run_c11(seed, i, acc)
            else:
                run_c12(seed, i, payload["k"], acc)
        finally:
            pool.clear_run_alarm()
    return dict(acc)


ASSUMPTIONS = {
    "C11": ["sampling, not enumeration", "the reference model is one Python dict per handle; assigned values are "
            "generated representable in the table's value dtype, so no cast semantics are modelled",
            "scalar lookup of an absent key and scalar HashTable.contains are outside the statement and not judged",
            "a refused vector assignment may leave each addressed present key with its old or its new value (narrow "
            "relaxation); accepted operations are never excused",
            "the audit reads _keys/_values fields directly so that checking never triggers the scalar->array "
            "transition itself"],
    "C12": ["sampling, not enumeration", "samples are drawn within the key dtype's range (values outside it cannot be "
            "represented in the key dtype; see DESIGN.md section 6, R9)",
            "the model counts what was actually delivered (a duplicated fragment counts twice)",
            "the clock behind npstructures.hashtable.time is a stub owned by the simulator"],
}
RULES = {
    "C11": "case = one history of 5-40 operations over 1-6 handles (HashTable / HashSet / Counter, derived handles "
           "sharing key storage) generated from the run seed; distinct = distinct (table configuration classes x "
           "operation-kind sequence); non-trivial = some write (assignment, fill, count) is followed later by a "
           "lookup on a handle of the same key family",
    "C12": "case = one sample stream delivered under one delivery schedule (fragmentation / order / empties / noise "
           "/ duplicates / interleaved reads) x modulus x fake-clock behaviour; distinct = distinct (key dtype, "
           "magnitude class, initial-value kind, stream size class, noise rate, delivery kind, modulus kind, "
           "history length); non-trivial = at least one delivery hit a key while the counter was already in array "
           "state (the += branch)",
}


def main(prop, tier, runs=None, write=True):
    t0 = time.time()
    seed = verif_seed()
    cfg = dict(TIERS[tier][prop])
    if runs:
        cfg["runs"] = runs
    payload = {"prop": prop, "seed": seed, "k": cfg.get("k", 0)}
    results = pool.run_chunks(explore_chunk, cfg["runs"], payload)
    tot = collections.Counter()
    sets = {k: set() for k in ("__distinct__", "__distinct_nontrivial__")}
    lists = {k: [] for k in ("__raw__", "__samples__", "__digests__")}
    for r in results:
        for k, v in r.items():
            if k in sets:
                sets[k] |= v
            elif k in lists:
                lists[k] += v
            else:
                tot[k] += v
    digest = hashlib.sha256("".join(lists["__digests__"]).encode()).hexdigest()[:32]

    known_lines = []
    for f in evidence.open_findings(prop):
        with open(os.path.join(evidence.VERIF, f["witness"])) as fh:
            wcase = json.load(fh)
        if evaluate(wcase) is not None:
            known_lines.append(f"KNOWN-FINDING: property={prop} {f['id']} {f['what']}")

    violations = []
    irreproducible = []
    by_class = collections.OrderedDict()
    for case in lists["__raw__"]:
        by_class.setdefault((case["violation"]["kind"], case["violation"].get("op")), []).append(case)
    seen = set()
    t_min = time.time()
    for cls, cases in list(by_class.items())[:MAX_CLASSES]:
        for case in cases[:MAX_MIN_PER_CLASS]:
            if violations and time.time() - t_min > MINIMISE_BUDGET_S:
                break       # enough minimised witnesses; never let reporting run into the command's timeout
            small, v, used = minimise(case, budget=600 if time.time() - t_min < MINIMISE_BUDGET_S / 2 else 150)
            if v is None:
                irreproducible.append(f"did not reproduce in the parent process: {case['origin']}")
                continue
            key = json.dumps([small["history"], small["config"]], sort_keys=True)
            if key in seen:
                continue
            seen.add(key)
            tag = hashlib.sha256(key.encode()).hexdigest()[:12]
            path = evidence.save_replay(small, prop, tag)
            ok, out = replay_fresh(path)
            if not ok:
                raw = dict(case)
                path = evidence.save_replay(raw, prop, tag + "-unminimised")
                ok, out2 = replay_fresh(path)
                if not ok:
                    irreproducible.append(out2[-600:])
                    continue
                small, v = raw, raw.get("violation")
            violations.append((path, small, v))

    if irreproducible and not violations:
        raise pool.HarnessFailure("violations were observed but none of them reproduces in a fresh interpreter "
                                  "(behaviour depends on process-wide state that a replay file cannot carry):\n"
                                  + irreproducible[0])
    wall = time.time() - t0
    stats = {k[3:]: v for k, v in sorted(tot.items()) if k.startswith("st:")}
    cov = {
        "evaluations": int(tot["histories"]),
        "distinct_nontrivial": len(sets["__distinct_nontrivial__"]),
        "rule": RULES[prop],
        "samples": lists["__samples__"][:3] or [{"note": "no short sample in this run"}],
        "operations_executed": int(tot["operations"]),
        "all_handle_audits": int(tot["audits"]),
        "distinct_cases": len(sets["__distinct__"]),
        "nontrivial_runs": int(tot["nontrivial_runs"]),
        "engine_counters": stats,
        "other_counters": {k: v for k, v in sorted(tot.items()) if not k.startswith("st:")},
        "runs_per_hour": int(tot["histories"] / max(wall, 1e-9) * 3600),
        "workers": pool.n_workers(),
        "simulated_time": ("the fake clock is read once per count() call; its values (steady, backwards, huge, NaN) "
                           "are scheduler-chosen and results must not depend on them") if prop == "C12" else
                          "none: no clock in this property; the unit of progress is the operation",
        "real_components": ["npstructures (working tree of /repo, digest " + sut.tree_digest() + ")", "numpy"],
        "stubbed_components": ["module `time` inside npstructures.hashtable (fake clock)"] if prop == "C12" else [],
        "event_log_digest": digest,
        "known_findings_reported": known_lines,
    }
    sample_n = min(cfg["runs"], 300)
    cov["reach_sample"] = {"what": f"statement coverage of the anchored files over the first {sample_n} runs of this "
                                   "batch, re-executed in the parent process under coverage.py (non-gating)",
                           **reach.measure(["npstructures/hashtable.py", "npstructures/raggedshape.py"],
                                           lambda: explore_chunk(0, sample_n, payload))}
    for line in known_lines:
        print(line)
    for path, small, v in violations:
        print(f"VIOLATION property={prop} replay={path}")
        print(pretty(small))
        print("  violation:", json.dumps(v)[:600])
    if write:
        evidence.write_evidence(prop, tier, seed, cov, wall, len(violations), ASSUMPTIONS[prop])
    print(f"{prop} {tier}: {tot['histories']} histories, {tot['operations']} operations, "
          f"{len(sets['__distinct_nontrivial__'])} distinct non-trivial cases, {len(violations)} violation(s), "
          f"digest {digest}, {wall:.1f}s")
    return 1 if violations else 0
