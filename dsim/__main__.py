"""CLI:  python -m dsim check <C06|C10|C11|C12|C19> [--tier quick|thorough] [--runs N] [--k K]
         python -m dsim replay <file>
         python -m dsim selftest determinism|sensitivity ...
Exit codes: 0 property held on everything explored; 1 violation (a `VIOLATION property=.. replay=..`
line is printed); 2 harness failure (never to be read as a verdict)."""
import os
import sys

for _v in ("OMP_NUM_THREADS", "OPENBLAS_NUM_THREADS", "MKL_NUM_THREADS", "NUMEXPR_NUM_THREADS"):
    os.environ.setdefault(_v, "1")
os.environ.setdefault("PYTHONDONTWRITEBYTECODE", "1")
sys.dont_write_bytecode = True


def _args(argv):
    opts = {}
    pos = []
    i = 0
    while i < len(argv):
        a = argv[i]
        if a.startswith("--"):
            if i + 1 < len(argv) and not argv[i + 1].startswith("--"):
                opts[a[2:]] = argv[i + 1]
                i += 2
            else:
                opts[a[2:]] = True
                i += 1
        else:
            pos.append(a)
            i += 1
    return pos, opts


def main(argv):
    pos, opts = _args(argv)
    if not pos:
        print(__doc__)
        return 2
    from .core import pool
    try:
        if pos[0] == "check":
            prop = pos[1]
            tier = opts.get("tier") or os.environ.get("VERIF_TIER") or "quick"
            if tier not in ("quick", "thorough"):
                tier = "quick"
            runs = int(opts["runs"]) if "runs" in opts else None
            k = int(opts["k"]) if "k" in opts else None
            if prop in ("C06", "C10", "C19"):
                from .checks import ragcheck
                return ragcheck.main(prop, tier, runs=runs, k=k, write="no-evidence" not in opts)
            if prop in ("C11", "C12"):
                from .checks import hashcheck
                return hashcheck.main(prop, tier, runs=runs, write="no-evidence" not in opts)
            print(f"unknown property {prop}")
            return 2
        if pos[0] == "replay":
            from .core import replay
            return replay.main(pos[1])
        if pos[0] == "selftest":
            from . import selftest
            return selftest.main(pos[1:], opts)
    except pool.HarnessFailure as e:
        print("HARNESS FAILURE:", e, file=sys.stderr)
        return 2
    print(__doc__)
    return 2


if __name__ == "__main__":
    try:
        rc = main(sys.argv[1:])
    except SystemExit:
        raise
    except BaseException:
        import traceback
        traceback.print_exc()
        rc = 2
    sys.exit(rc)
